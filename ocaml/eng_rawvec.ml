(* eng_rawvec.ml — model side of engine `rawvec` (C03 raw half, C04, C16).
   Input tokens:  fmt=<bytes|zc|eager> ty=<u64|u8|u32|i64|a3> k=<n> <op> <op> …
   Output: one line per executed step (same text as the harness prints after `O <id> `).
   After a step whose result is `panic` nothing more is printed (the harness stops there too). *)
open BinNums
open Datatypes
open Base
open Conv
open RvBase
open RvChange
open RvModel
open RvRollback
open RvInst
module L = Stdlib.List
module S = Stdlib.String

let width_of = function
  | "u8" -> 1 | "u16" -> 2 | "u32" -> 4 | "u64" | "i64" -> 8 | "a3" -> 3
  | t -> failwith ("ty " ^ t)

let verr_name = function
  | EWrongLength -> "WrongLength" | EOverflow -> "Overflow" | EUnderflow -> "Underflow"
  | EIndexTooHigh -> "IndexTooHigh" | EStampMismatch -> "StampMismatch" | EIO -> "IO"
  | EWriteOutOfBounds -> "WriteOutOfBounds" | ETruncateInvalid -> "TruncateInvalid"
  | ERegionNotFound -> "RegionNotFound"

let parse_op (w : int) (t : string) : w_op list =
  let n = n_of_string in
  let wmask = Z.pred (Z.shift_left Z.one (8 * w)) in
  match S.split_on_char ':' t with
  | ["p"; v] -> [Push (n v)]
  | ["P"; c; v0] ->
      let c = int_of_string c and v0 = Z.of_string v0 in
      L.init c (fun i -> Push (n_of_z (Z.logand (Z.add v0 (Z.of_int i)) wmask)))
  | ["t"; i] -> [Truncate (n i)]
  | ["w"] -> [Write]
  | ["f"] -> [Flush]
  | ["r"] -> [Reset]
  | ["ru"] -> [ResetUnsaved]
  | ["ri"] | ["ro"] -> [Reimport]
  | ["u"; i; v] -> [Update (n i, n v)]
  | ["d"; i] -> [Delete (n i)]
  | ["k"; i] -> [Take (n i)]
  | ["h"; v] -> [Fill (n v)]
  | ["c"; s] -> [Commit (n s)]
  | ["cn"; s] -> [StampedWrite (n s)]
  | ["rb"] -> [Rollback]
  | ["rbb"; s] -> [RollbackBefore (n s)]
  | ["xd"; s] -> [FDelete (n s)]
  | ["xt"; s; k] -> [FTruncate (n s, n k)]
  | ["xo"; s; off; v] -> [FOverwrite (n s, n off, n v)]
  | _ -> failwith ("op " ^ t)

let show_list f = function
  | [] -> "-"
  | l ->
    let s = S.concat "," (L.map f l) in
    (* long lists: count + FNV-1a of the text (same rule as the harness) *)
    if L.length l > 64 then Printf.sprintf "#%d:%s" (L.length l) (fnv (bytes_of_string s)) else s
let show_opt = function None -> "_" | Some v -> string_of_n v

let show_res = function
  | RUnit -> "ok"
  | RBool b -> if b then "ok:true" else "ok:false"
  | RIdx i -> "ok:" ^ string_of_n i
  | RVal o -> "ok:" ^ show_opt o
  | RStamp s -> "ok:" ^ string_of_n s
  | RErr e -> "err:" ^ verr_name e
  | RPanic -> "panic"

(* one `P:c:v0` token is ONE step for the harness (c pushes, one observation) *)
let obs (fmt : string) (w : int) (nstep : int) (tok : string) (r : coq_N ores) (s : w_rv) : string =
  let wn = nat_of_int w in
  if r = RPanic then Printf.sprintf "%d %s r=panic" nstep tok else
  let r = (match r with RBool _ when tok = "f" -> RUnit | x -> x) in
  let huge = Z.gt (z_of_n (rlen s)) (Z.of_int 4096) in
  if huge then Printf.sprintf "%d %s r=%s | len=huge" nstep tok (show_res r) else
  let v = w_view wn s in
  let raw = fmt <> "eager" in
  let vals = if huge then "huge" else if raw then show_list show_opt v
             else show_list string_of_n (L.filter_map (fun x -> x) v) in
  let b = Buffer.create 256 in
  Buffer.add_string b (Printf.sprintf "%d %s r=%s | len=%s st=%s v=%s" nstep tok (show_res r)
                         (string_of_n (rlen s)) (string_of_n s.stamp) vals);
  if raw then Buffer.add_string b (" h=" ^ show_list string_of_n s.holes);
  Buffer.add_string b (Printf.sprintf " | sl=%s rsl=%s pu=%s" (string_of_n s.stored_len)
                         (string_of_n (real_stored_len s)) (show_list string_of_n s.pushed));
  if raw then
    Buffer.add_string b (Printf.sprintf " up=%s ph=%s pup=%s hsh=%d"
                           (show_list (fun (i, x) -> string_of_n i ^ "=" ^ string_of_n x) s.updated)
                           (show_list string_of_n s.prev_holes)
                           (show_list (fun (i, x) -> string_of_n i ^ "=" ^ string_of_n x) s.prev_updated)
                           (if s.has_stored_holes then 1 else 0));
  Buffer.add_string b (Printf.sprintf " rl=%d hr=%s ch=%s"
                         (int_of_n Sizes.coq_HEADER_OFFSET + w * int_of_n (real_stored_len s))
                         (match s.holes_region with None -> "none" | Some l -> string_of_int (8 * L.length l))
                         (match s.changes with
                          | None -> "none"
                          | Some l -> show_list (fun (st, bytes) -> string_of_n st ^ ":" ^ fnv bytes) l));
  Buffer.contents b

let exec (toks : string list) : string list =
  let cfg, ops = L.partition (fun t -> S.contains t '=') toks in
  let get key = let p = key ^ "=" in
    let t = L.find (fun t -> S.length t > S.length p && S.sub t 0 (S.length p) = p) cfg in
    S.sub t (S.length p) (S.length t - S.length p) in
  let fmt = get "fmt" and ty = get "ty" and k = get "k" in
  let _big = L.mem "big=1" cfg in   (* big histories are no longer cut short: write() cannot fail with WriteOutOfBounds since the repair *)
  let w = width_of ty in
  let wn = nat_of_int w in
  let s = ref (w_init (n_of_string k)) in
  let out = ref [] and stop = ref false and nstep = ref 0 in
  L.iter (fun tok ->
    if not !stop then begin
      let os = parse_op w tok in
      let r = ref RUnit in
      L.iter (fun o -> let (s', r') = w_step wn !s o in s := s'; r := r') os;
      out := obs fmt w !nstep tok !r !s :: !out;
      incr nstep;
      (match !r with RPanic -> stop := true | _ -> ());
      if Z.gt (z_of_n (rlen !s)) (Z.of_int 4096) then stop := true
    end) ops;
  L.rev !out
