(* eng_lazy.ml — model side of engine `lazy` (C15): evaluates the extracted Coq models of the lazy
   vectors (Lazy/LazyFrom.v, LazyDelta.v, LazyAgg.v) and of the ReadableVec default methods
   (Lazy/LazyBase.v) on the harness's `I` line and returns the expected `O` bodies. *)
open BinNums
open Datatypes
open Base
open Conv
open LazyBase
module L = Stdlib.List
module S = Stdlib.String

let coqz_of_z (z : Z.t) : coq_Z =
  if Z.sign z = 0 then Z0 else if Z.sign z > 0 then Zpos (pos_of_z z) else Zneg (pos_of_z (Z.neg z))
let z_of_coqz (z : coq_Z) : Z.t = match z with Z0 -> Z.zero | Zpos p -> z_of_pos p | Zneg p -> Z.neg (z_of_pos p)
let show_z (z : coq_Z) = Z.to_string (z_of_coqz z)
let show_oz = function None -> "n" | Some z -> show_z z

let uncsv (f : string -> 'a) (s : string) : 'a list =
  if s = "-" then [] else L.map f (S.split_on_char ',' s)
let zs s = uncsv (fun x -> coqz_of_z (Z.of_string x)) s
let ns s = uncsv n_of_string s

(* one vector = its overridable primitives (closures over the mutable sources / mapping) *)
type 'o vecm = {
  vlen : unit -> coq_N;
  esz : coq_N;
  rd : coq_N -> coq_N -> (unit, 'o list) res;      (* read_into_at *)
  fe : coq_N -> coq_N -> (unit, 'o list) res;      (* for_each_range_dyn_at *)
  fr : coq_N -> coq_N -> (unit, 'o list) res;      (* fold_range_at *)
  tf : coq_N -> coq_N -> 'o ev list;               (* try_fold_range_at: the element stream *)
  one : coq_N -> (unit, 'o option) res;
  sorted : coq_N list -> (unit, 'o list) res;
  le : 'o -> 'o -> bool;
  sum : (coq_N -> coq_N -> (unit, 'o option) res) option;
  show : 'o -> string;
}

let show_list show = function [] -> "v -" | l -> "v " ^ S.concat "," (L.map show l)
let res_list show = function Ok l -> show_list show l | _ -> "panic"
let res_opt show = function Ok (Some x) -> "some " ^ show x | Ok None -> "none" | _ -> "panic"
let evs l = L.map (fun x -> EV x) l

let z_le a b = Z.leq (z_of_coqz a) (z_of_coqz b)

let exec (toks : string list) : string list =
  match toks with
  | ovf :: kind :: ty :: _stor :: counts :: rest ->
      let ovf = ovf = "1" in
      let ety = match ty with "u64" -> U64 | "i64" -> I64 | _ -> U32 in
      let srcs = ref [] and map = ref [] and ops = ref [] in
      L.iter (fun t ->
        if S.length t > 2 && S.sub t 0 2 = "S=" then srcs := !srcs @ [ref (zs (S.sub t 2 (S.length t - 2)))]
        else if S.length t > 2 && S.sub t 0 2 = "M=" then map := ns (S.sub t 2 (S.length t - 2))
        else ops := t :: !ops) rest;
      let ops = L.rev !ops in
      let src k = !(L.nth !srcs k) in
      let cnt k = counts.[k] = '1' in
      let n2 = n_of_int in
      let run (type o) (v : o vecm) : string list =
        L.map (fun t ->
          let p = S.split_on_char ':' t in
          let nn i = n_of_string (L.nth p i) in
          match L.hd p with
          | "len" -> "len " ^ string_of_n (v.vlen ())
          | "cr" -> res_list v.show (collect_range_at v.esz (v.vlen ()) v.rd (nn 1) (nn 2))
          | "fr" -> res_list v.show (v.fr (nn 1) (nn 2))
          | "fe" -> res_list v.show (v.fe (nn 1) (nn 2))
          | "ri" -> res_list v.show (v.rd (nn 1) (nn 2))
          | "tf" -> (match run_stop (nn 3) (v.tf (nn 1) (nn 2)) with
                     | Ok (l, e) -> show_list v.show l ^ (if e then " E" else "")
                     | _ -> "panic")
          | "c1" -> res_opt v.show (v.one (nn 1))
          | "rs" -> res_list v.show (v.sorted (ns (L.nth p 1)))
          | "cu" -> (match cursor_gets (v.vlen ()) v.rd cursor_new (ns (L.nth p 1)) with
                     | Ok os -> show_list (function Some x -> v.show x | None -> "_") os
                     | _ -> "panic")
          | "mn" -> res_opt v.show (min_at v.fr v.le (nn 1) (nn 2))
          | "mx" -> res_opt v.show (max_at v.fr v.le (nn 1) (nn 2))
          | "sm" -> (match v.sum with Some s -> res_opt v.show (s (nn 1) (nn 2)) | None -> "nosum")
          | "cs" ->
              let sg i = match L.nth p i with "n" -> None | x -> Some (coqz_of_z (Z.of_string x)) in
              res_list v.show (collect_signed_range v.esz (v.vlen ()) v.rd (sg 1) (sg 2))
          | "co" -> res_list v.show (collect_all v.esz (v.vlen ()) v.rd)
          | "fi" -> res_opt v.show (collect_first v.one)
          | "la" -> res_opt v.show (collect_last (v.vlen ()) v.one)
          | "g" ->
              let k = int_of_string (L.nth p 1) in
              let r = L.nth !srcs k in
              r := !r @ zs (L.nth p 2);
              "grown " ^ string_of_int (L.length !r)
          | "M" -> map := ns (L.nth p 1); "map " ^ string_of_int (L.length !map)
          | _ -> "bad-op " ^ t) ops in
      let ok l = Ok l in
      let int_sum fr = Some (fun f t -> sum_at ovf ety fr f t) in
      (match kind with
       | "from1" ->
           let f = LazyFrom.cf1 ety in
           run { vlen = (fun () -> LazyFrom.f1_len (src 0)); esz = ety_size ety;
                 rd = (fun a b -> ok (LazyFrom.f1_read_into f (src 0) a b));
                 fe = (fun a b -> ok (LazyFrom.f1_for_each f (src 0) a b));
                 fr = (fun a b -> ok (LazyFrom.f1_fold f (src 0) a b));
                 tf = (fun a b -> evs (LazyFrom.f1_try_fold f (src 0) a b));
                 one = (fun i -> ok (LazyFrom.f1_one f (src 0) i));
                 sorted = (fun ix -> ok (LazyFrom.f1_sorted f (src 0) ix));
                 le = z_le; sum = int_sum (fun a b -> ok (LazyFrom.f1_fold f (src 0) a b)); show = show_z }
       | "from2" ->
           let f = LazyFrom.cf2 ety in
           let c1 = cnt 0 and c2 = cnt 1 in
           let fr a b = ok (LazyFrom.f2_fold f c1 c2 (src 0) (src 1) a b) in
           run { vlen = (fun () -> LazyFrom.f2_len c1 c2 (src 0) (src 1)); esz = ety_size ety;
                 rd = (fun a b -> ok (LazyFrom.f2_read_into f c1 c2 (src 0) (src 1) a b));
                 fe = (fun a b -> ok (LazyFrom.f2_for_each f c1 c2 (src 0) (src 1) a b));
                 fr; tf = (fun a b -> evs (LazyFrom.f2_try_fold f c1 c2 (src 0) (src 1) a b));
                 one = (fun i -> ok (LazyFrom.f2_one f c1 c2 (src 0) (src 1) i));
                 sorted = (fun ix -> ok (LazyFrom.f2_sorted f (src 0) (src 1) ix));
                 le = z_le; sum = int_sum fr; show = show_z }
       | "from3" ->
           let f = LazyFrom.cf3 ety in
           let c1 = cnt 0 and c2 = cnt 1 and c3 = cnt 2 in
           let fr a b = ok (LazyFrom.f3_fold f c1 c2 c3 (src 0) (src 1) (src 2) a b) in
           run { vlen = (fun () -> LazyFrom.f3_len c1 c2 c3 (src 0) (src 1) (src 2)); esz = ety_size ety;
                 rd = (fun a b -> ok (LazyFrom.f3_read_into f c1 c2 c3 (src 0) (src 1) (src 2) a b));
                 fe = (fun a b -> ok (LazyFrom.f3_for_each f c1 c2 c3 (src 0) (src 1) (src 2) a b));
                 fr; tf = (fun a b -> evs (LazyFrom.f3_try_fold f c1 c2 c3 (src 0) (src 1) (src 2) a b));
                 one = (fun i -> ok (LazyFrom.f3_one f c1 c2 c3 (src 0) (src 1) (src 2) i));
                 sorted = (fun ix -> ok (LazyFrom.f3_sorted f (src 0) (src 1) (src 2) ix));
                 le = z_le; sum = int_sum fr; show = show_z }
       | "dsub" | "dchg" ->
           let op = if kind = "dsub" then LazyDelta.DSub else LazyDelta.DChg in
           let fr a b = run_all (LazyDelta.d_fold ovf ety op (src 0) !map a b) in
           run { vlen = (fun () -> LazyDelta.d_len (src 0) !map);
                 esz = (if kind = "dsub" then ety_size ety else n2 8);
                 rd = (fun a b -> run_all (LazyDelta.d_read_into ovf ety op (src 0) !map a b));
                 fe = (fun a b -> run_all (LazyDelta.d_for_each ovf ety op (src 0) !map a b));
                 fr; tf = (fun a b -> LazyDelta.d_try_fold ovf ety op (src 0) !map a b);
                 one = (fun i -> LazyDelta.d_one ovf ety op (src 0) !map i);
                 sorted = (fun ix -> LazyDelta.d_sorted ovf ety op (src 0) !map ix);
                 le = z_le;
                 sum = (if kind = "dsub" then int_sum fr
                        else Some (fun a b -> match fr a b with Ok l -> Ok (sum_exact l) | Err e -> Err e | Panic -> Panic));
                 show = show_z }
       | "agg" ->
           let fr a b = run_all (LazyAgg.a_fold (src 0) !map a b) in
           run { vlen = (fun () -> LazyAgg.a_len !map);
                 esz = (match ety with U32 -> n2 8 | _ -> n2 16);       (* size_of::<Option<T>>() *)
                 rd = (fun a b -> run_all (LazyAgg.a_read_into (src 0) !map a b));
                 fe = (fun a b -> run_all (LazyAgg.a_for_each (src 0) !map a b));
                 fr; tf = (fun a b -> LazyAgg.a_try_fold_range (src 0) !map a b);
                 one = (fun i -> LazyAgg.a_one (src 0) !map i);
                 sorted = (fun ix -> LazyAgg.a_sorted (src 0) !map ix);
                 le = LazyAgg.optz_le; sum = None; show = show_oz }
       | k -> ["bad-kind " ^ k])
  | _ -> ["bad-input"]
