(* eng_schedvec.ml — model side of engine `schedvec` (C09): replays the schedule of an `I` line on the
   extracted step models of Conc/SvSteps.v.  The glue below only decides WHICH label a thread takes
   next (the program order of write() and of the reader operations) and at which phases the real code
   has a stop; every state change is a step of the extracted relation, whose guards decide enabledness. *)
open BinNums
open Datatypes
open Conv
open SvSteps
module L = Stdlib.List
module S = Stdlib.String

let n = n_of_int
let ni = int_of_n
let mask64 = Z.pred (Z.shift_left Z.one 64)
let mix (i : int) : Z.t =
  let ( *% ) a b = Z.logand (Z.mul a b) mask64 and ( +% ) a b = Z.logand (Z.add a b) mask64 in
  let z = Z.of_int i +% Z.of_string "0x9E3779B97F4A7C15" in
  let z = (Z.logxor z (Z.shift_right z 30)) *% Z.of_string "0xBF58476D1CE4E5B9" in
  let z = (Z.logxor z (Z.shift_right z 27)) *% Z.of_string "0x94D049BB133111EB" in
  Z.logxor z (Z.shift_right z 31)
let value vf i : coq_N = if vf = 0 then n (1000 + 7 * i) else n_of_z (mix i)
(* values of the second vector `b` (another generator; the model never compares them with a's) *)
let value_b vf i : coq_N =
  if vf = 0 then n_of_z (Z.logor (Z.of_string "0xB5B5000000000000") (Z.of_int (13 * i + 5)))
  else n_of_z (mix (i lxor 0x515151510000))

(* writer items: (is it the second vector b?, number of values pushed before write()) *)
type cfg = { fmt : string; vf : int; st : bool; fine : bool; pre : (bool * int) list; w : (bool * int) list; hasb : bool;
             readers : (string * string) list list; hints : string list; sched : (int * bool) list }

let parse (toks : string list) : cfg =
  let c = ref { fmt = "raw"; vf = 0; st = false; fine = false; pre = []; w = []; hasb = false; readers = []; hints = []; sched = [] } in
  L.iter (fun t ->
    match S.index_opt t '=' with
    | None -> ()
    | Some i ->
      let k = S.sub t 0 i and v = S.sub t (i + 1) (S.length t - i - 1) in
      let items sep = L.filter_map (fun x -> if x = "" then None
                       else if x.[0] = 'b' then Some (true, int_of_string (S.sub x 1 (S.length x - 1)))
                       else Some (false, int_of_string x)) (S.split_on_char sep v) in
      (match k with
       | "fmt" -> c := { !c with fmt = v }
       | "vf" -> c := { !c with vf = int_of_string v }
       | "st" -> c := { !c with st = (v = "1") }
       | "g" -> c := { !c with fine = (v = "f") }
       | "pre" -> c := { !c with pre = L.filter (fun x -> x <> (false, 0)) (items '+') }
       | "w" -> c := { !c with w = items ',' }
       | "r" -> let ops = L.filter_map (fun o -> if o = "" then None else
                    Some (match S.index_opt o ':' with
                          | Some j -> (S.sub o 0 j, S.sub o (j + 1) (S.length o - j - 1))
                          | None -> (o, ""))) (S.split_on_char ';' v) in
                c := { !c with readers = !c.readers @ [ops] }
       | "h" -> c := { !c with hints = S.split_on_char ';' v }
       | "s" -> c := { !c with sched = L.filter_map (fun x -> if x = "" then None else
                    let blk = x.[S.length x - 1] = '!' in
                    let x = if blk then S.sub x 0 (S.length x - 1) else x in
                    Some ((if x = "w" then 0 else int_of_string x), blk)) (S.split_on_char ',' v) }
       | _ -> ())) toks;
  { !c with hasb = L.exists fst (!c.pre @ !c.w) }

(* ---------------------------------------------------------------------------------------------- *)
(* a uniform view of the two models *)
type model = Raw of rs_state | Comp of cs_state
type outcome = Stop of string | Done | Blocked

exception Model_stuck of string

let idx_of spec l = match spec with
  | "last" | "" -> l - 1 | "first" -> 0 | "mid" -> l / 2
  | s -> min (try int_of_string s with _ -> 0) (l - 1)

let exec (toks : string list) : string list =
  let c = parse toks in
  (* `rawn` = raw format with a non-native element type (8 bytes wide): the same step model as `raw` *)
  let comp = c.fmt <> "raw" && c.fmt <> "rawn" in
  let hint_field p = L.find_map (fun h -> if S.length h > 0 && h.[0] = p then Some (S.sub h 1 (S.length h - 1)) else None) c.hints in
  let flen0 = n_of_string (Option.value (hint_field 'F') ~default:"1048576") in
  let start0 = n_of_string (Option.value (hint_field 'S') ~default:"0") in
  let startb = n_of_string (Option.value (hint_field 'T') ~default:"0") in
  let whints = ref (L.filter (fun h -> S.length h > 0 && h.[0] <> 'F' && h.[0] <> 'S' && h.[0] <> 'T') c.hints) in
  let pp = n (ni Consts.coq_MAX_UNCOMPRESSED_PAGE_SIZE / 8) in
  let mk_inst st = ref (if comp then Comp (cs_init st Consts.coq_NEW_REGION_RESERVED flen0 pp)
                        else Raw (rs_init st Consts.coq_NEW_REGION_RESERVED flen0)) in
  (* one instance of the step model per vector: `ma` = the vector the readers read, `mb` = the second vector of the
     writer thread (no readers).  The writer's current write() works on `!tgt`; the OTHER instance sees its placements
     (LWOther / KOther, guarded by the freshness guard) and its file growths (LWOtherGrow / KOtherGrow). *)
  let ma = mk_inst start0 and mb = mk_inst startb in
  let tgt = ref ma in
  let other () = if !tgt == ma then mb else ma in
  let rstep_on inst l = match !inst with Raw s -> (match rs_step s l with Some s' -> inst := Raw s'; true | None -> false) | _ -> false in
  let cstep_on inst l = match !inst with Comp s -> (match cs_step s l with Some s' -> inst := Comp s'; true | None -> false) | _ -> false in
  let rstep l = rstep_on !tgt l and cstep l = cstep_on !tgt l in          (* writer steps *)
  let arstep l = rstep_on ma l and acstep l = cstep_on ma l in            (* reader steps *)
  let must b what = if not b then raise (Model_stuck what) in
  let reg_of inst = match !inst with Raw s -> s.rs_reg | Comp s -> s.cs_reg in
  let slen_of inst = match !inst with Raw s -> s.rs_slen | Comp s -> s.cs_slen in
  let reg () = reg_of !tgt in
  let slen () = slen_of ma in
  let flen () = match !(!tgt) with Raw s -> s.rs_flen | Comp s -> s.cs_flen in
  let hist () = match !ma with Raw s -> s.rs_hist | Comp s -> s.cs_hist in
  let log () = match !ma with Raw s -> s.rs_log | Comp s -> s.cs_log in
  let suffix () = let r = reg_of ma in
    Printf.sprintf "%s,%s,%s %s %s" (string_of_n r.r_start) (string_of_n r.r_len) (string_of_n r.r_res) (string_of_n (slen ()))
      (string_of_n (match !ma with Raw s -> s.rs_flen | Comp s -> s.cs_flen))
    ^ (if c.hasb then let b = reg_of mb in
         Printf.sprintf " b=%s,%s,%s,%s" (string_of_n b.r_start) (string_of_n b.r_len) (string_of_n b.r_res) (string_of_n (slen_of mb))
       else "") in
  let lt a b = Z.lt (z_of_n a) (z_of_n b) in
  let add a b = n_of_z (Z.add (z_of_n a) (z_of_n b)) in

  (* ------------------------------------------------------------------ writer *)
  let next_val = ref 0 and next_val_b = ref 0 in
  (* the allocator's answer for the current write() as the OTHER vector sees it: bytes of a foreign region land there *)
  let place_other () =
    if c.hasb then begin
      let (ns, nr) = match !(!tgt) with
        | Raw s -> (match s.rs_w with WInRes nr -> (s.rs_reg.r_start, nr) | WRelRes (ns, nr) -> (ns, nr) | _ -> raise (Model_stuck "place"))
        | Comp s -> (match s.cs_w with CInRes (_, nr) -> (s.cs_reg.r_start, nr) | CRelRes (_, ns, nr) -> (ns, nr) | _ -> raise (Model_stuck "place")) in
      let o = other () in
      must (if comp then cstep_on o (KOther (ns, nr)) else rstep_on o (LWOther (ns, nr)))
        (if o == ma then "placement-of-b-overlaps-an-extent-of-a-still-protected (freshness guard)"
         else "placement-of-a-overlaps-an-extent-of-b (freshness guard)")
    end in
  (* file growth: the mmap write lock is one per database, the readers' guards are counted in a's instance *)
  let grow_both () =
    let own () = if comp then cstep KGrowFile else rstep LWGrowFile in
    if not c.hasb then own ()
    else begin
      let t = match !(!tgt) with
        | Raw s -> (match s.rs_w with WInRes nr -> add s.rs_reg.r_start nr | WRelRes (ns, nr) -> add ns nr | _ -> raise (Model_stuck "growtarget"))
        | Comp s -> (match s.cs_w with CInRes (_, nr) -> add s.cs_reg.r_start nr | CRelRes (_, ns, nr) -> add ns nr | _ -> raise (Model_stuck "growtarget")) in
      let o = other () in
      let foreign () = if comp then cstep_on o (KOtherGrow t) else rstep_on o (LWOtherGrow t) in
      if !tgt == ma then (if own () then (must (foreign ()) "othergrow"; true) else false)
      else (if foreign () then (must (own ()) "growfile"; true) else false)
    end in
  let cur_hint = ref "f" and cur_sizes = ref [] in
  let take_hint () =
    (match !whints with
     | h :: t -> whints := t;
       (match S.index_opt h ':' with
        | Some i -> cur_hint := S.sub h 0 i;
          cur_sizes := L.map n_of_string (S.split_on_char '.' (S.sub h (i + 1) (S.length h - i - 1)))
        | None -> cur_hint := h; cur_sizes := [])
     | [] -> cur_hint := "f"; cur_sizes := []) in
  let ghint () = if !cur_hint = "e" || !cur_hint = "f" then GIn
    else GRel (n_of_string (S.sub !cur_hint 1 (S.length !cur_hint - 1))) in
  let w_ops = ref c.w and w_path = ref "slow" in
  let w_results = ref [] in
  (* one "segment" of the writer: run to the next stop.  stops: which names are stops (coarse/fine/stamped) *)
  let stop_w name =
    match name with
    | "raw-write:after-header" | "comp-write:after-header" -> c.st
    | "L:mmap:w" | "raw-write:after-publish" | "after-decode" | "pages-locked" | "after-index-flush" | "flush:after-data" -> c.fine
    | _ -> true in
  let needs_growth target = lt (flen ()) (ceil_page target) in
  let w_pending : (unit -> outcome) ref = ref (fun () -> Done) in
  (* the writer as a chain of continuations: each returns Stop name (and sets the next continuation), Blocked, or Done *)
  let stops_on = ref true in
  let rec seq (name : string) (shown : string) (next : unit -> outcome) : outcome =
    if !stops_on && stop_w name then (w_pending := next; Stop shown) else next ()
  and w_begin () : outcome =
    match !w_ops with
    | [] -> Done
    | (isb, cnt) :: rest ->
      w_ops := rest;
      take_hint ();
      tgt := (if isb then mb else ma);
      for _ = 1 to cnt do
        let v = if isb then (let v = value_b c.vf !next_val_b in incr next_val_b; v)
                else (let v = value c.vf !next_val in incr next_val; v) in
        must (if comp then cstep (KPush v) else rstep (LPush v)) "push"
      done;
      if comp then c_begin () else begin
        must (rstep (LWBegin c.st)) "begin";
        if c.st then begin
          must (rstep LWHdrCopy) "hdrcopy";
          seq "fits" "write_with:fits:after-data" (fun () -> must (rstep LWHdrDone) "hdrdone"; seq "raw-write:after-header" "raw-write:after-header" r_body)
        end else r_body ()
      end
  and w_end (res : string) () : outcome =
    w_results := !w_results @ [res];
    (match !w_ops with [] -> Done | _ -> seq "op" "h:op-start" w_begin)
  and r_body () : outcome =
    match !(!tgt) with
    | Raw s ->
      if L.length (rs_pushed s) = 0 then (must (rstep LWNoop) "noop"; w_end "ok" ())
      else if not (lt (reg ()).r_res (rs_newlen s)) then begin
        must (rstep LWCopyFits) "copyfits";
        seq "fits" "write_with:fits:after-data" r_setlen
      end else begin
        must (rstep (LWReserve (ghint ()))) "reserve (allocator hint rejected by the freshness guard)";
        place_other ();
        r_grow ()
      end
    | _ -> Done
  and r_grow () : outcome =
    match !(!tgt) with
    | Raw s ->
      (match s.rs_w with
       | WInRes nr ->
         if needs_growth (add (reg ()).r_start nr) then seq "L:mmap:w" "L:mmap:w" (r_growfile (fun () -> r_copyin ()))
         else r_copyin ()
       | WRelRes (ns, nr) ->
         if needs_growth (add ns nr) then seq "L:mmap:w" "L:mmap:w" (r_growfile (fun () -> r_before_copy ()))
         else r_before_copy ()
       | _ -> raise (Model_stuck "grow"))
    | _ -> Done
  and r_growfile k () : outcome =
    if grow_both () then k () else (w_pending := r_growfile k; Blocked)
  and r_copyin () = must (rstep LWCopyIn) "copyin"; r_setlen ()
  and r_before_copy () =
    seq "before-copy" "write_with:relocate:before-copy" (fun () ->
      must (rstep LWRelCopy) "relcopy";
      seq "after-copy" "write_with:relocate:after-copy" r_setlen)
  and r_setlen () =
    must (rstep LWSetLen) "setlen";
    seq "raw-write:after-region-write" "raw-write:after-region-write" (fun () ->
      must (rstep LWPublish) "publish";
      seq "raw-write:after-publish" "raw-write:after-publish" (w_end "ok"))
  (* compressed *)
  and c_begin () : outcome =
    match !(!tgt) with
    | Comp s ->
      (match cs_plan s !cur_sizes with
       | None -> must (cstep (KBegin !cur_sizes)) "begin-fail"; w_end "err" ()
       | Some pl ->
         w_path := (match pl.pl_fast with Some _ -> "fast" | None -> "slow");
         let go () =
           must (cstep (KBegin !cur_sizes)) "begin";
           (match !(!tgt) with
            | Comp s' ->
              (match s'.cs_w with
               | CFitsData _ -> seq "fits" "write_with:fits:after-data" c_setlen
               | CPlanned _ -> must (cstep (KReserve (ghint ()))) "reserve (allocator hint rejected by the freshness guard)"; place_other (); c_grow ()
               | CFailed -> w_end "err" ()
               | _ -> raise (Model_stuck "begin-phase"))
            | _ -> Done) in
         let has_partial = ni s.cs_slen mod ni s.cs_pp <> 0 in
         ignore has_partial;
         if !w_path = "slow" then seq "after-decode" "comp-write:slow:after-decode" go else go ())
    | _ -> Done
  and c_grow () : outcome =
    match !(!tgt) with
    | Comp s ->
      (match s.cs_w with
       | CInRes (_, nr) ->
         if needs_growth (add (reg ()).r_start nr) then seq "L:mmap:w" "L:mmap:w" (c_growfile (fun () -> c_copy_in ()))
         else c_copy_in ()
       | CRelRes (_, ns, nr) ->
         if needs_growth (add ns nr) then seq "L:mmap:w" "L:mmap:w" (c_growfile (fun () -> c_before_copy ()))
         else c_before_copy ()
       | _ -> raise (Model_stuck "cgrow"))
    | _ -> Done
  and c_growfile k () : outcome =
    if grow_both () then k () else (w_pending := c_growfile k; Blocked)
  and c_copy_in () = must (cstep KCopy) "copy"; c_setlen ()
  and c_before_copy () =
    seq "before-copy" "write_with:relocate:before-copy" (fun () ->
      must (cstep KCopy) "relcopy";
      seq "after-copy" "write_with:relocate:after-copy" c_setlen)
  and c_setlen () =
    must (cstep KSetLen) "setlen";
    seq "after-region-write" ("comp-write:" ^ !w_path ^ ":after-region-write") c_lock
  and c_lock () : outcome =
    if cstep KLock then
      seq "pages-locked" ("comp-write:" ^ !w_path ^ ":pages-locked") (fun () ->
        must (cstep KIndex) "index";
        seq "after-index" ("comp-write:" ^ !w_path ^ ":after-index") (fun () ->
          must (cstep KPublish) "publish";
          seq "after-publish" ("comp-write:" ^ !w_path ^ ":after-publish") (fun () ->
            seq "flush:after-data" "write_with:fits:after-data" (fun () ->
              must (cstep KFlush) "flush";
              seq "after-index-flush" ("comp-write:" ^ !w_path ^ ":after-index-flush") (fun () ->
                must (cstep KUnlock) "unlock"; w_end "ok" ())))))
    else (w_pending := c_lock; Blocked) in

  (* pre-writes: sequential, no stops *)
  stops_on := false;
  let saved = !w_ops in
  w_ops := c.pre;
  (match (try w_begin () with Model_stuck s -> Stop ("stuck:" ^ s)) with
   | Done -> ()
   | Stop s -> raise (Failure ("pre-write stopped at " ^ s))
   | Blocked -> raise (Failure "pre-write blocked"));
  let rec drain () = match !w_ops with [] -> () | _ -> (match w_begin () with Done -> () | _ -> ()); drain () in
  drain ();
  w_results := [];
  w_ops := saved;
  stops_on := true;
  w_pending := w_begin;

  (* ------------------------------------------------------------------ readers *)
  let nr = L.length c.readers in
  let r_pending : (unit -> outcome) array = Array.make (nr + 1) (fun () -> Done) in
  let out = ref [] in
  let emit s = out := s :: !out in
  let reader_prog (rid : int) (ops : (string * string) list) : unit -> outcome =
    let r = n rid in
    let load () = must (if comp then acstep (KRLoad r) else arstep (LRLoad r)) "load" in
    let snap () = must (if comp then acstep (KRSnap r) else arstep (LRSnap r)) "snap" in
    let guard () = must (if comp then acstep (KRGuard r) else arstep (LRGuard r)) "guard" in
    let drop () = must (if comp then acstep (KRDrop r) else arstep (LRDrop r)) "drop" in
    let rseq stop_it shown next = if stop_it then (r_pending.(rid) <- next; Stop shown) else next () in
    let rec run_ops k ops () : outcome =
      match ops with
      | [] -> Done
      | (kind, arg) :: rest ->
        let finish l idx cnt res =
          emit (Printf.sprintf "r%d op%d %s:%s len=%d idx=%d n=%d res=%s" rid k kind arg l idx cnt res);
          (match rest with [] -> Done | _ -> rseq true "h:op-start" (run_ops (k + 1) rest)) in
        let names = match kind, comp with
          | "get", false -> ("ro-raw:after-len", "ro-raw:after-reader", "")
          (* non-native element: no bulk memcpy, collect_range_at and the cursor read value by value through the fold source
             (raw/inner/read_only/readable.rs:41) *)
          | ("rng" | "cur"), false -> ("ro-raw:after-len", (if c.fmt = "rawn" then "raw-mmap-source:after-reader" else "ro-raw:after-reader-bulk"), "")
          | "fold", false -> ("ro-raw:after-len", "raw-mmap-source:after-reader", "")
          | "vr", _ -> ("vec-reader:after-len", "vec-reader:after-reader", "")
          | ("get" | "fold"), true -> ("ro-comp:after-len", "comp-mmap-source:after-reader", "comp-mmap-source:after-pages-lock")
          | _, true -> ("ro-comp:after-len", "ro-comp:after-reader", "ro-comp:after-pages-lock")
          | _, _ -> ("", "", "") in
        let (n_len, n_rd, n_pg) = names in
        let do_reads l from cnt =
          (* all reads under one snapshot; ok iff every logged result is the pushed value *)
          let before = L.length (log ()) in
          for i = from to from + cnt - 1 do
            must (if comp then acstep (KRRead (r, n i)) else arstep (LRRead (r, n i))) "read"
          done;
          let lg = log () in
          let fresh = L.filteri (fun j _ -> j < L.length lg - before) lg in
          let ok = reads_okb (hist ()) fresh in
          drop ();
          finish l from cnt (if ok then "ok" else "bad") in
        let body l from cnt () =
          snap ();
          rseq c.fine "L:mmap:r" (fun () ->
            guard ();
            rseq true n_rd (fun () ->
              if comp then
                let rec plock () =
                  if acstep (KRPages r) then rseq true n_pg (fun () -> do_reads l from cnt)
                  else (r_pending.(rid) <- plock; Blocked) in
                plock ()
              else do_reads l from cnt)) in
        (match kind with
         | "len" -> load (); let l = ni (slen ()) in drop (); finish l 0 0 "ok"
         | "vr" ->
           load (); let l = ni (slen ()) in
           rseq true n_len (fun () ->
             if l = 0 then begin snap (); rseq c.fine "L:mmap:r" (fun () -> guard (); rseq true n_rd (fun () -> drop (); finish 0 0 0 "empty")) end
             else body l (idx_of arg l) 1 ())
         | "get" | "rng" | "fold" | "cur" ->
           load (); let l = ni (slen ()) in
           rseq c.fine "h:len" (fun () ->
             if l = 0 then (drop (); finish 0 0 0 "empty")
             else begin
               let (from, cnt) = match kind with
                 | "rng" | "fold" -> let kk = max 1 (min (try int_of_string arg with _ -> 1) l) in (l - kk, kk)
                 | _ -> (idx_of arg l, 1) in
               if comp && kind = "get" then load ();
               load ();
               rseq true n_len (body l from cnt)
             end)
         | _ -> finish 0 0 0 "empty") in
    run_ops 0 ops in
  L.iteri (fun i ops -> r_pending.(i + 1) <- reader_prog (i + 1) ops) c.readers;

  (* ------------------------------------------------------------------ schedule *)
  let finished = Array.make (nr + 1) false in
  let run_thread tid : outcome =
    let k = if tid = 0 then !w_pending else r_pending.(tid) in
    if tid = 0 then w_pending := (fun () -> Done) else r_pending.(tid) <- (fun () -> Done);
    let o = (try k () with Model_stuck s -> Stop ("model-stuck:" ^ s)) in
    (match o with
     | Blocked -> if tid = 0 then () else ()
     | Done -> finished.(tid) <- true
     | Stop _ -> ());
    o in
  let inflight = Array.make (nr + 1) false in
  let arrived : outcome option array = Array.make (nr + 1) None in
  (* threads without operations are done from the start *)
  if c.w = [] then finished.(0) <- true;
  L.iteri (fun i ops -> if ops = [] then finished.(i + 1) <- true) c.readers;
  let retry_inflight () =
    Array.iteri (fun tid fl -> if fl && arrived.(tid) = None then
      (match run_thread tid with Blocked -> () | o -> arrived.(tid) <- Some o)) inflight in
  L.iter (fun (tid, _expect) ->
    let tname = if tid = 0 then "w" else string_of_int tid in
    if tid > nr then emit (Printf.sprintf "%s bad-thread" tname)
    else if finished.(tid) && not inflight.(tid) then emit (Printf.sprintf "%s finished" tname)
    else begin
      let pre = L.length !out in
      ignore pre;
      let held = ref [] in
      let saved_out = !out in
      out := [];
      let o = if inflight.(tid) then (match arrived.(tid) with Some o -> arrived.(tid) <- None; o | None -> run_thread tid)
        else run_thread tid in
      held := !out; out := saved_out;
      (match o with
       | Stop s -> inflight.(tid) <- false; emit (Printf.sprintf "%s %s %s" tname s (suffix ()))
       | Done -> inflight.(tid) <- false; emit (Printf.sprintf "%s done %s" tname (suffix ()))
       | Blocked -> inflight.(tid) <- true; emit (Printf.sprintf "%s blocked %s" tname (suffix ())));
      out := !held @ !out;
      retry_inflight ()
    end) c.sched;
  (* free run of whatever is left (generated schedules are complete) *)
  stops_on := false;
  let rec finish_all guard =
    if guard > 0 then begin
      let progressed = ref false in
      for tid = 0 to nr do
        if not finished.(tid) then (match run_thread tid with Done -> progressed := true | Stop _ -> progressed := true | Blocked -> ())
      done;
      if !progressed then finish_all (guard - 1)
    end in
  finish_all 200;
  L.iteri (fun k r -> emit (Printf.sprintf "write%d %s" k r)) !w_results;
  let r = reg_of ma in
  emit (Printf.sprintf "final len=%s values=ok region=%s,%s,%s" (string_of_n (slen ())) (string_of_n r.r_start) (string_of_n r.r_len) (string_of_n r.r_res));
  if c.hasb then begin
    let r = reg_of mb in
    emit (Printf.sprintf "finalb len=%s values=ok region=%s,%s,%s" (string_of_n (slen_of mb)) (string_of_n r.r_start) (string_of_n r.r_len) (string_of_n r.r_res))
  end;
  L.rev !out
