(* eng_rawdbx.ml — cross-check of the extraction (DESIGN.md 2.2) for the allocator model: for an input line
   of engine `rawdb` prints the digest of the whole run computed by the EXTRACTED model and the Coq source
   that computes the same digest with vm_compute.  Driven by tools/x_crosscheck.py; has no harness side. *)
open BinNums
open Conv
open Alloc
module L = Stdlib.List
module S = Stdlib.String

let exec (t : string list) : string list =
  match t with
  | cfg :: ops ->
      let min_len = L.nth (S.split_on_char ':' cfg) 1 in
      let ops = L.filter (fun o -> o <> "") ops in
      let term (s : string) : op * string =
        let t = S.split_on_char ':' s in
        let a i = L.nth t i in
        let n i = n_of_string (a i) in
        let g i = gen_byte (n i) in
        match L.hd t with
        | "c" -> (Create (n 1, a 2 = "1"), Printf.sprintf "Create %s %s" (a 1) (if a 2 = "1" then "true" else "false"))
        | "w" -> (Write (n 1, g 2, n 3), Printf.sprintf "Write %s (gen_byte %s) %s" (a 1) (a 2) (a 3))
        | "a" -> (WriteAt (n 1, g 2, n 3, n 4), Printf.sprintf "WriteAt %s (gen_byte %s) %s %s" (a 1) (a 2) (a 3) (a 4))
        | "tw" -> (TruncWrite (n 1, g 2, n 3, n 4), Printf.sprintf "TruncWrite %s (gen_byte %s) %s %s" (a 1) (a 2) (a 3) (a 4))
        | "t" -> (Truncate (n 1, n 2), Printf.sprintf "Truncate %s %s" (a 1) (a 2))
        | "mv" -> (Rename (n 1, n 2), Printf.sprintf "Rename %s %s" (a 1) (a 2))
        | "rm" -> (Remove (n 1), "Remove " ^ a 1)
        | "dh" -> (DropHandle (n 1), "DropHandle " ^ a 1)
        | "ret" ->
            let ks = if L.length t > 1 && a 1 <> "" then S.split_on_char '+' (a 1) else [] in
            (Retain (L.map n_of_string ks), "Retain [" ^ S.concat "; " ks ^ "]")
        | "f" -> (Flush, "Flush")
        | "fr" -> (FlushRegion (n 1), "FlushRegion " ^ a 1)
        | "cp" -> (Compact, "Compact")
        | "ro" -> (Reopen, "Reopen")
        | "ml" -> (SetMinLen (n 1), "SetMinLen " ^ a 1)
        | "mr" -> (SetMinRegions (n 1), "SetMinRegions " ^ a 1)
        | _ -> failwith ("bad op " ^ s) in
      let parsed = L.map term ops in
      (* the byte pattern of the differential engine is the model's own gen_byte *)
      L.iter (fun k -> assert (Eng_rawdb.gen_fun 5 (n_of_int k) = gen_byte (n_of_int 5) (n_of_int k))) [0; 1; 255; 256; 4097; 70001];
      let d = AllocDigest.a_trace_digest (n_of_string min_len) (L.map fst parsed) in
      [ "digest " ^ string_of_n d;
        Printf.sprintf "coq (a_trace_digest %s [%s])" min_len (S.concat "; " (L.map snd parsed)) ]
  | [] -> ["err UnknownCase"]
