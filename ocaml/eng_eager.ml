(* eng_eager.ml — model side of engine `eager` (C06, C19): evaluates the extracted Coq driver
   (EDriver.compute_call through EFamilies.call_by_id) on the history of an `I` line and returns
   the expected `O` bodies.  Also evaluates the model's own abstract spec (scratch) after calls
   with a valid max_from: a disagreement inside the model is returned as an `S ` line. *)
open BinNums
open Datatypes
open Base
open Conv
open EDriver
open EFamilies
module L = Stdlib.List
module S = Stdlib.String

let methods = [
  "to", (Mto, 1, 0, true, false); "range", (Mrange, 1, 0, true, false);
  "from_index", (Mfrom_index, 1, 0, false, false);
  "transform", (Mtransform, 1, 0, true, true); "transform2", (Mtransform2, 2, 0, true, true);
  "binary", (Mbinary, 2, 0, false, false);
  "transform3", (Mtransform3, 3, 0, true, true); "transform4", (Mtransform4, 4, 0, true, true);
  "add", (Madd, 2, 0, false, false); "subtract", (Msubtract, 2, 0, false, false);
  "multiply", (Mmultiply, 2, 0, false, false); "divide", (Mdivide, 2, 0, false, false);
  "percentage", (Mpercentage, 2, 0, false, false); "percentage_diff", (Mpercentage_diff, 2, 0, false, false);
  "sum_of_others", (Msum_of_others, 3, 0, false, false); "min_of_others", (Mmin_of_others, 3, 0, false, false);
  "max_of_others", (Mmax_of_others, 3, 0, false, false);
  "cumulative", (Mcumulative, 1, 0, false, false); "cum_binary", (Mcum_binary, 2, 0, false, false);
  "cum_tbinary", (Mcum_tbinary, 2, 0, false, false); "cum_count", (Mcum_count, 1, 0, false, false);
  "cum_count_from", (Mcum_count_from, 1, 0, false, false);
  "ath", (Math, 1, 0, false, false); "atl", (Matl, 1, 0, false, false); "atl_ex", (Matl_ex, 1, 0, false, false);
  "ath_from", (Math_from, 1, 0, false, false); "atl_from", (Matl_from, 1, 0, false, false);
  "change", (Mchange, 1, 0, false, false); "lookback", (Mlookback, 1, 1, false, false);
  "sum", (Msum, 1, 0, false, false); "rolling_count", (Mrolling_count, 1, 0, false, false);
  "max", (Mmax, 1, 0, false, false); "min", (Mmin, 1, 0, false, false);
  "rolling_sum", (Mrolling_sum, 1, 1, false, false);
  "rolling_max_fs", (Mrolling_max_fs, 1, 1, false, false); "rolling_min_fs", (Mrolling_min_fs, 1, 1, false, false);
  "sum_fi", (Msum_fi, 1, 2, false, false); "fsum_fi", (Mfsum_fi, 1, 2, false, false);
  "count_fi", (Mcount_fi, 1, 1, false, false); "fcount_fi", (Mfcount_fi, 1, 1, false, false);
  "indirect", (Mindirect, 1, 1, false, false);
  (* first_per_index does not go through compute_init: it has its own model (EFamilies.fpi_call); the id is a placeholder *)
  "first_per_index", (Mto, 0, 1, false, false);
]
let usize_out = ["from_index"; "cum_count"; "cum_count_from"; "rolling_count"; "count_fi"; "fcount_fi"; "first_per_index"]
let semantic = ["sum_fi"; "fsum_fi"; "count_fi"; "fcount_fi"; "indirect"]

let fnv_vals (l : coq_N list) : string =
  let h = ref (Z.of_string "0xcbf29ce484222325") in
  let p = Z.of_string "0x100000001b3" and mask = Z.pred (Z.shift_left Z.one 64) in
  L.iter (fun x ->
    let z = ref (z_of_n x) in
    for _ = 1 to 8 do
      let b = Z.logand !z (Z.of_int 255) in
      z := Z.shift_right !z 8;
      h := Z.logand (Z.mul (Z.logxor !h b) p) mask
    done) l;
  let s = Z.format "%x" !h in S.make (16 - S.length s) '0' ^ s

(* generated source segments: the same function as harness/src/eng_eager.rs gen_seg (native ints) *)
let gen_seg (kind : string) (a : int) (b : int) (c : int) (from : int) (prev : int) (n : int) : int list =
  let x = ref ((a * 7919 + from * 104729 + 12345) land 0x7fffffff) in
  let next () = x := (!x * 1103515245 + 12345) land 0x7fffffff; !x lsr 8 in
  let out = ref [] and p = ref prev in
  (match kind with
   | "r" -> for _ = 1 to n do out := (next () mod b + c) :: !out done
   | "n" -> for _ = 1 to n do p := !p + next () mod b; out := !p :: !out done
   | "q" -> for i = from to from + n - 1 do
              let t = ((max 0 (i - a)) / b) * b in
              p := min i (max !p t); out := !p :: !out done
   | "k" -> for _ = 1 to n do p := min (!p + next () mod b) c; out := !p :: !out done
   | "f" -> p := c; for _ = 1 to n do out := !p :: !out; p := !p + next () mod b done
   | _ -> failwith "segment kind");
  L.rev !out

let after_prefix p s =
  let lp = S.length p in
  if S.length s >= lp && S.sub s 0 lp = p then Some (S.sub s lp (S.length s - lp)) else None

let err_name = function
  | Underflow -> "Underflow" | UnexpectedIndex -> "UnexpectedIndex" | InvalidArgument -> "InvalidArgument"
  | OutOfFuel -> "ModelOutOfFuel"

let exec (toks : string list) : string list =
  let get k = match L.find_map (after_prefix k) toks with Some v -> v | None -> "" in
  let mname = get "m=" in
  let (id, n64, nusz, logs, has_this) = L.assoc mname methods in
  let fmt = get "f=" in
  let own = int_of_string (get "own=") in
  let w = Z.of_string (get "w=") in
  let ops = L.filter (fun t -> not (S.contains t '=')) toks in
  let compressed = fmt = "pco" && not (L.mem mname usize_out) in
  let adds =
    if compressed then Z.mul (z_of_n Consts.coq_COMP_LAYER_VERSION) (Z.add (z_of_n Consts.coq_COMP_IMPORT_ADDS) (z_of_n Consts.coq_COMP_FORCED_OWN_ADDS))
    else Z.mul (z_of_n Consts.coq_RAW_LAYER_VERSION) (Z.add (z_of_n Consts.coq_RAW_IMPORT_ADDS) (z_of_n Consts.coq_RAW_FORCED_OWN_ADDS)) in
  let ns = n64 + nusz in
  let src : Z.t list array = Array.make ns [] in      (* stored reversed? no: plain lists, appended *)
  let ver = Array.make ns 0 in                          (* EagerVec sources start with computed_version 0 *)
  let own = ref own in
  let v = ref (vec_new (n_of_z (Z.add (Z.of_int !own) adds))) in
  let out = ref [Printf.sprintf "init vv=%s cv=%s len=%d" (Z.to_string adds) (string_of_n (!v).cv) (int_of_nat (vlen !v))] in
  let emit s = out := s :: !out in
  let pending_lo = ref max_int and stale_lo = ref max_int and tainted = ref false in
  let is_fpi = mname = "first_per_index" in
  let large = get "large=" = "1" in
  let is_sem = L.mem mname semantic in
  let ref_prev : coq_N list ref = ref [] in
  let first_diff (a : coq_N list) (b : coq_N list) : int =
    let rec go i a b = match a, b with
      | [], [] -> max_int
      | [], _ | _, [] -> i
      | x :: a', y :: b' -> if x = y then go (i + 1) a' b' else i in
    go 0 a b in
  let srcs () : srcs = (Array.to_list (Array.map (fun l -> L.map n_of_z l) src), n_of_z w) in
  let take n l = L.filteri (fun i _ -> i < n) l in
  L.iter (fun op ->
    let k = op.[0] and rest = S.sub op 1 (S.length op - 1) in
    if !tainted then () (* the case ends at the first spec-level violation, on both sides *) else
    match k with
    | 'A' | 'T' | 'V' | 'G' ->
      let (j, arg) = match S.index_opt rest ':' with
        | Some i -> (int_of_string (S.sub rest 0 i), S.sub rest (i + 1) (S.length rest - i - 1))
        | None -> failwith "op" in
      (match k with
       | 'A' | 'G' ->
         let vals =
           if k = 'G' then begin
             match S.split_on_char ':' arg with
             | [n; kind; a; b; c] ->
               let from = L.length src.(j) in
               let prev = if from = 0 then 0 else Z.to_int (L.nth src.(j) (from - 1)) in
               L.map Z.of_int (gen_seg kind (int_of_string a) (int_of_string b) (int_of_string c) from prev (int_of_string n))
             | _ -> failwith "G"
           end else if arg = "" then [] else L.map Z.of_string (S.split_on_char ',' arg) in
         pending_lo := min !pending_lo (L.length src.(j));
         src.(j) <- src.(j) @ vals
       | 'T' ->
         let t = int_of_string arg in
         if t < L.length src.(j) then (pending_lo := min !pending_lo t; src.(j) <- take t src.(j))
       | _ -> ver.(j) <- int_of_string arg)
    | 'C' ->
      let (mf, cap, fail) = match S.split_on_char ':' rest with
        | [a; b] -> (Z.of_string a, int_of_string b, None)
        | [a; b; c] -> (Z.of_string a, int_of_string b, Some (nat_of_int (int_of_string c)))
        | _ -> failwith "C" in
      let s = srcs () in
      let nused = if mname = "sum_of_others" || mname = "min_of_others" || mname = "max_of_others"
        then max 1 (min 3 (Z.to_int w)) else n64 in
      let dep = ref (if mname = "sum" then 2 else 0) in
      Array.iteri (fun j x -> if j < nused || j >= n64 then dep := !dep + x) ver;
      let len0 = int_of_nat (vlen !v) in
      let v0 = !v in
      let scratch_now () = if is_fpi then Ok (fpi_scratch (L.nth (fst s) 0)) else scratch_by_id id s in
      if is_sem && not large then begin
        let rn = match scratch_now () with Ok l -> l | _ -> [] in
        pending_lo := first_diff !ref_prev rn;
        ref_prev := rn
      end;
      let tgt = if is_fpi then L.length (L.nth (fst s) 0) else int_of_nat (target_by_id id s) in
      let mfi = if Z.gt mf (Z.of_int (len0 + 1)) then len0 + 1 else Z.to_int mf in
      let capn = if cap = 0 then
          (if is_fpi then tgt + len0 + 16 + 2 * L.fold_left (fun a x -> max a (Z.to_int x)) 0 src.(0) else tgt + len0 + 1)
        else cap in
      let cv_before = z_of_n (!v).cv in
      let presented = Z.add (z_of_n (!v).vv) (Z.of_int !dep) in
      let from = int_of_nat (resume_len compressed (n_of_int !dep) (nat_of_int mfi) !v) in
      let mfi = if is_fpi then (if Z.gt mf (Z.of_int (tgt + len0 + 1)) then tgt + len0 + 1 else Z.to_int mf) else mfi in
      let (v', r) =
        if is_fpi then fpi_call compressed (L.nth (fst s) 0) (n_of_int !dep) (nat_of_int mfi) (nat_of_int capn) !v
        else call_by_id_fail id fail compressed s (n_of_int !dep) (nat_of_int mfi) (nat_of_int capn) !v in
      v := v';
      let hang = (match r with Err OutOfFuel -> is_fpi | _ -> false) in
      let res = match r with Ok _ -> "ok" | Err e -> "err:" ^ err_name e | Panic -> "panic" in
      let vals = vec_contents v' in
      let len1 = L.length vals in
      (* a failing closure is still called (and logged) at the index at which it fails *)
      let ev_end = if fail <> None && res <> "ok" then len1 + 1 else len1 in
      let ev = if logs && ev_end > from then Printf.sprintf "%d-%d" from ev_end else "-" in
      let bs =
        if has_this && ev_end > from then begin
          let step = if cap = 0 then max_int else cap in
          let rec go i acc = if i >= ev_end then L.rev acc else go (if step = max_int then ev_end else i + step) (string_of_int i :: acc) in
          S.concat "," (go from [])
        end else "-" in
      if hang then begin
        (* the real repeat_until_complete loop does not terminate; the harness watchdog prints this *)
        emit "c hang"; tainted := true;
        emit "S C06:c06-first_per_index-batch-limit-livelock (model)"
      end else
      emit (Printf.sprintf "c %s len=%d cv=%s h=%s ev=%s bs=%s" res len1 (string_of_n v'.cv) (fnv_vals vals) ev bs);
      (* the model against its own abstract spec *)
      let changed = not (Z.equal presented cv_before) in
      let clears = ref true in
      let valid =
        if is_fpi then begin
          let before = vec_contents v0 in
          if before = [] then true else begin
            let other = Array.of_list src.(0) in
            let n = Array.length other in
            let last = Z.to_int (z_of_n (L.nth before (L.length before - 1))) in
            let skip = if Z.gt mf (Z.of_int last) then last else Z.to_int mf in
            clears := skip <= !stale_lo && skip < n;
            let boundary = skip = 0 || skip >= n || Z.lt other.(skip - 1) other.(skip) in
            skip <= !pending_lo && boundary && (!pending_lo = max_int || skip < n)
          end
        end else Z.leq mf (Z.of_int (min !pending_lo (max_int - 1))) || !pending_lo = max_int || len0 = 0 in
      if changed then stale_lo := max_int;
      if (not valid) && not changed then stale_lo := min !stale_lo (if is_fpi then 0 else !pending_lo)
      else if (Z.leq mf (Z.of_int !stale_lo) && !clears) || !stale_lo = max_int then stale_lo := max_int;
      pending_lo := max_int;
      if !stale_lo = max_int && res = "ok" && not !tainted && not large then begin
        match scratch_now () with
        | Ok sc -> if sc <> vals then begin
            tainted := true;
            emit (Printf.sprintf "S C06:c06-%s-%s-from-scratch (model)" mname (if L.length sc <> len1 then "len-differs" else "differs")) end
        | _ -> tainted := true; emit (Printf.sprintf "S C06:c06-%s-outcome-differs-from-scratch (model)" mname)
      end
    | 'h' ->
      (* hp:<k> — k marker values pushed by hand, no write *)
      let k = int_of_string (S.sub rest 2 (S.length rest - 2)) in
      let len0 = int_of_nat (vlen !v) in
      v := vec_hand_push !v (L.init k (fun j -> n_of_int (777000 + len0 + j)));
      stale_lo := min !stale_lo len0
    | 'W' -> v := vec_write !v; emit "w ok"
    | 'R' | 'N' ->
      let new_own = if k = 'N' then int_of_string rest else !own in
      let w1 = vec_write !v in
      let len_before = int_of_nat (vlen !v) in
      if new_own = !own then begin
        v := vec_reimport w1;
        if int_of_nat (vlen !v) > len_before && not !tainted then begin
          tainted := true; emit (Printf.sprintf "S %s-flush-reimport-restores-discarded-results (model)" fmt) end
      end
      else (v := vec_new (n_of_z (Z.add (Z.of_int new_own) adds)); stale_lo := max_int; ref_prev := []);
      own := new_own;
      emit (Printf.sprintf "r vv=%s cv=%s len=%d h=%s" (Z.to_string adds) (string_of_n (!v).cv) (int_of_nat (vlen !v)) (fnv_vals (vec_contents !v)))
    | _ -> failwith "bad op") ops;
  L.rev !out
