(* eng_codecx.ml — cross-check of the extraction (DESIGN.md 2.2) for the codec models: for an input line of
   engine `codec` that decodes a byte string, prints the digest of the result computed by the EXTRACTED model
   and the Coq source that computes the same digest with vm_compute.  Driven by tools/x_crosscheck.py. *)
open BinNums
open Conv
module L = Stdlib.List
module S = Stdlib.String

let blist (l : coq_N list) : string = "[" ^ S.concat "; " (L.map string_of_n l) ^ "]"

let exec (t : string list) : string list =
  let one name f spec =
    let bs = spec_to_bytes spec in
    [ "digest " ^ string_of_n (f bs); Printf.sprintf "coq (%s %s)" name (blist bs) ] in
  match t with
  | ["meta_dec"; spec] ->
      let r = one "cd_meta_dec" CodecDigest.cd_meta_dec spec in
      (* the id bytes of a metadata record also go through the UTF-8 / control-character predicates *)
      r
  | ["fill"; spec] -> one "cd_fill" CodecDigest.cd_fill spec
  | ["hdr_dec"; spec] -> one "cd_hdr_dec" CodecDigest.cd_hdr_dec spec
  | ["page_dec"; spec] -> one "cd_page_dec" CodecDigest.cd_page_dec spec
  | ["num_dec"; w; spec] -> one ("cd_num_dec " ^ w ^ "%nat") (CodecDigest.cd_num_dec (nat_of_int (int_of_string w))) spec
  | ["arr_dec"; n; spec] -> one ("cd_arr_dec " ^ n ^ "%nat") (CodecDigest.cd_arr_dec (nat_of_int (int_of_string n))) spec
  | _ -> []
