"""Texts of MANIFEST.json (level claims, notes).  Keep honest: a property whose headline
theorem is partial says so."""

NOTES = ("Technique family: machine-checked proof in Rocq (Coq 8.16.1). Each property is a set of theorems about a "
         "hand-written executable Gallina model (coq/), tied to /repo on every run by (A) coq/Gen/*.v regenerated from "
         "the source by tools/gen_consts.py and (B) a differential correspondence: the model is extracted to OCaml "
         "(ExtrOcamlBasic only) and run on the same inputs/histories as the real code (harness/, built from /repo's "
         "working tree with --cfg anydb_verif). See DESIGN.md.")

ENGINES = [
    dict(name="codec", path="harness/src/codec.rs + ocaml/eng_codec.ml", serves_properties=["C17"],
         kind_free_text="differential: real decoders/encoders vs extracted Coq codecs, plus implementation-only round-trip/validity oracles"),
]

NOT_YET = "machinery for this property is not built yet in this round (planned in DESIGN.md section 10); no claim is made"
NOT_APPLICABLE = {f"C{i:02d}": NOT_YET for i in range(1, 21)}

TEXT = {
    "C17": dict(
        design_ref="DESIGN.md section 4, C17",
        technique="Coq proof of codec round-trip/totality + extracted-model differential",
        text=("Proof: Coq theorems C17_* (Props/C17.v) state, for ALL byte strings and ALL field values, that the "
              "region-metadata, vector-header, Format, page-index and numeric/byte-array codecs round-trip every valid "
              "value, that decoding returns an error or a value satisfying the validity rules and never panics, that the "
              "id allocation is bounded by the input, and that Regions::fill decodes each slot from its own bytes only "
              "(invalid slots skipped). The models use offsets/limits regenerated from the source on every run and are "
              "validated against the real decoders differentially (debug and release builds)."),
        note=("Trusted: Coq kernel; the translator gen_consts.py; extraction (ExtrOcamlBasic) and the OCaml driver; the "
              "Rust harness. The Rust code itself is modelled, not verified: the tie is the regenerated constants plus "
              "differential agreement on generated inputs (bounded sample). Rollback change-record codecs are handled under C16."),
    ),
}
