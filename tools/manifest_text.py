"""Texts of MANIFEST.json (level claims, notes).  Keep honest: a property whose headline
theorem is partial says so."""

NOTES = ("Technique family: machine-checked proof in Rocq (Coq 8.16.1). Each property is a set of theorems about a "
         "hand-written executable Gallina model (coq/), tied to /repo on every run by (A) coq/Gen/*.v regenerated from "
         "the source by tools/gen_consts.py and (B) a differential correspondence: the model is extracted to OCaml "
         "(ExtrOcamlBasic only) and run on the same inputs/histories as the real code (harness/, built from /repo's "
         "working tree with --cfg anydb_verif). See DESIGN.md.")

NOT_YET = "machinery for this property is not built yet in this round (planned in DESIGN.md section 10); no claim is made"
NOT_APPLICABLE = {f"C{i:02d}": NOT_YET for i in range(1, 21)}

