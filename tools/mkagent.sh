#!/bin/sh
# tools/mkagent.sh <name> — private working copy of /verif for one builder (merged back by the coordinator)
set -e
mkdir -p /root/agents/$1
rsync -a --delete --exclude harness/target --exclude work --exclude .git /verif/ /root/agents/$1/verif/
echo /root/agents/$1/verif
