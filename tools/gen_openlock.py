#!/usr/bin/env python3
"""Translator (A) for C18: regenerate coq/Gen/OpenOrder.v from /repo's current working tree.

Extracted by pattern from crates/rawdb/src/{lib,regions,region,reader,error}.rs:
  * the relative order of the calls create_dir_all / open / try_lock / set_len / sync_all /
    Regions::open / create_mmap inside Database::open_with_min_len,
  * the relative order of create_dir_all / open(regions) / try_lock / create_mmap inside Regions::open,
  * the OpenOptions flags (create, truncate) of both opens,
  * whether set_len/sync_all sit inside `if file_len < min_len { … }`,
  * whether a failing try_lock is propagated with `?` and which Error variant it converts to,
  * the declaration order (= drop order) of the DatabaseInner fields owning a locked File,
  * what keeps the Arc<DatabaseInner> alive: Reader has a `Database` field, RegionInner only a
    `WeakDatabase`, run_bg builds its handle with Arc::from_raw inside ManuallyDrop (no count),
    Drop joins the background tasks when strong_count == 1.
Every pattern that no longer matches makes the translator fail loudly (exit 2); it never guesses.
The file is only rewritten when its content changes.
"""
import os, re, sys

REPO = os.environ.get("ANYDB_REPO", "/repo")
ROOT = os.path.dirname(os.path.dirname(os.path.abspath(__file__)))
OUT = os.path.join(ROOT, "coq", "Gen", "OpenOrder.v")
R = "crates/rawdb/src/"


class GenError(Exception):
    pass


def src(rel):
    try:
        return open(os.path.join(REPO, rel)).read()
    except OSError as e:
        raise GenError(f"cannot read {rel}: {e}")


def strip_comments(t):
    t = re.sub(r"/\*.*?\*/", "", t, flags=re.S)
    return re.sub(r"//[^\n]*", "", t)


def strip_verif_hooks(t):
    """Remove everything guarded by `#[cfg(anydb_verif)]` (the add-only verification hooks): the
    attribute and the item / statement / struct field / expression statement that follows it."""
    out, i = [], 0
    pat = re.compile(r"#\[cfg\(anydb_verif\)\]\s*")
    while True:
        m = pat.search(t, i)
        if not m:
            out.append(t[i:])
            return "".join(out)
        out.append(t[i:m.start()])
        j = m.end()
        item = re.match(r"(pub(\([^)]*\))?\s+)?(fn|mod|impl|struct|enum|trait)\b", t[j:])
        depth, k, seen_brace = 0, j, False
        while k < len(t):
            c = t[k]
            if c in "({[":
                depth += 1
                seen_brace = seen_brace or c == "{"
            elif c in ")}]":
                if depth == 0:
                    break          # end of the enclosing block: the guarded thing was its last expression
                depth -= 1
                if depth == 0 and c == "}" and item:
                    k += 1
                    break
            elif c in ";," and depth == 0 and (c == ";" or not item):
                k += 1
                break
            k += 1
        i = k


def fn_body(text, header_re, what):
    """Body (between the matching braces) of the first fn whose header matches header_re."""
    m = re.search(header_re, text)
    if not m:
        raise GenError(f"{what}: function header no longer matches {header_re!r}")
    i = text.index("{", m.end() - 1) if text[m.end() - 1] != "{" else m.end() - 1
    depth, j = 0, i
    while j < len(text):
        if text[j] == "{":
            depth += 1
        elif text[j] == "}":
            depth -= 1
            if depth == 0:
                return text[i + 1:j]
        j += 1
    raise GenError(f"{what}: unbalanced braces")


def once(body, pattern, what, where):
    ms = list(re.finditer(pattern, body, re.S))
    if len(ms) != 1:
        raise GenError(f"{where}: expected exactly one match for {what} ({pattern!r}), found {len(ms)}")
    return ms[0]


def order(body, pats, where):
    """pats: list of (coq constructor, regex).  Returns the constructors sorted by source position."""
    pos = []
    for name, pat in pats:
        m = once(body, pat, name, where)
        pos.append((m.start(), name))
    pos.sort()
    return [n for _, n in pos]


def open_flags(body, path_pat, where):
    m = once(body, r"OpenOptions::new\(\)((?:\s*\.\w+\([^()]*\))*?)\s*\.open\(" + path_pat + r"\)\?", "OpenOptions chain", where)
    chain = dict(re.findall(r"\.(\w+)\((true|false)\)", m.group(1)))
    for k in ("read", "write", "create", "truncate"):
        if k not in chain:
            raise GenError(f"{where}: OpenOptions chain has no .{k}(…): {m.group(1)!r}")
    extra = set(chain) - {"read", "write", "create", "truncate"}
    if extra:
        raise GenError(f"{where}: OpenOptions chain has unknown options {sorted(extra)}")
    return chain


def gen():
    lib = strip_verif_hooks(strip_comments(src(R + "lib.rs")))
    regions = strip_verif_hooks(strip_comments(src(R + "regions.rs")))
    region = strip_verif_hooks(strip_comments(src(R + "region.rs")))
    reader = strip_verif_hooks(strip_comments(src(R + "reader.rs")))
    error = strip_verif_hooks(strip_comments(src(R + "error.rs")))

    # ---- Database::open_with_min_len ------------------------------------------------------
    ob = fn_body(lib, r"pub fn open_with_min_len\(path: &Path, min_len: usize\) -> Result<Self> \{", "open_with_min_len")
    w = "lib.rs open_with_min_len"
    open_calls = order(ob, [
        ("C_create_dir_all", r"fs::create_dir_all\(path\)\?"),
        ("C_open", r"\.open\(Self::data_path_from\(path\)\)\?"),
        ("C_try_lock", r"file\.try_lock\(\)\?\s*;"),
        ("C_set_len", r"file\.set_len\(min_len as u64\)\?"),
        ("C_sync_all", r"file\.sync_all\(\)\?"),
        ("C_regions_open", r"Regions::open\(path\)\?"),
        ("C_create_mmap", r"create_mmap\(&file\)\?"),
    ], w)
    # no other length-changing / locking call hides in the function
    for forbidden in (r"\.set_len\(", r"\.try_lock\(", r"\.lock\(\)", r"\.unlock\(", r"truncate\(true\)", r"remove_file", r"fs::write"):
        n = len(re.findall(forbidden, ob))
        allowed = 1 if forbidden in (r"\.set_len\(", r"\.try_lock\(") else 0
        if n != allowed:
            raise GenError(f"{w}: {n} occurrences of {forbidden!r}, expected {allowed}")
    guarded = re.search(r"if file_len < min_len \{\s*file\.set_len\(min_len as u64\)\?;\s*file\.sync_all\(\)\?;\s*file_len = min_len;\s*\}", ob)
    if not guarded:
        raise GenError(f"{w}: `if file_len < min_len {{ set_len; sync_all; }}` block no longer matches")
    once(ob, r"let mut file_len = file\.metadata\(\)\?\.len\(\) as usize;", "file_len from metadata", w)
    dflags = open_flags(ob, r"Self::data_path_from\(path\)", w)
    once(lib, r"fn data_path_from\(path: &Path\) -> PathBuf \{\s*path\.join\(\"data\"\)\s*\}", "data_path_from", "lib.rs")
    # the statements after the lock/len/Regions::open part: Arc::new(DatabaseInner {…}) then fill
    once(ob, r"Self\(Arc::new\(DatabaseInner \{", "Arc::new(DatabaseInner", w)
    if not (ob.index("create_mmap(&file)?") < ob.index("Self(Arc::new(DatabaseInner {") < ob.index(".fill(&db)?")):
        raise GenError(f"{w}: order create_mmap < Arc::new < fill no longer holds")

    # ---- Regions::open --------------------------------------------------------------------
    rb = fn_body(regions, r"pub fn open\(parent: &Path\) -> Result<Self> \{", "Regions::open")
    w2 = "regions.rs Regions::open"
    regions_calls = order(rb, [
        ("C_create_dir_all", r"fs::create_dir_all\(parent\)\?"),
        ("C_open", r"\.open\(parent\.join\(\"regions\"\)\)\?"),
        ("C_try_lock", r"file\.try_lock\(\)\?\s*;"),
        ("C_create_mmap", r"create_mmap\(&file\)\?"),
    ], w2)
    for forbidden in (r"\.set_len\(", r"\.lock\(\)", r"\.unlock\(", r"truncate\(true\)", r"remove_file"):
        if re.search(forbidden, rb):
            raise GenError(f"{w2}: unexpected {forbidden!r}")
    rflags = open_flags(rb, r"parent\.join\(\"regions\"\)", w2)
    rs = once(regions, r"pub struct Regions \{(.*?)\n\}", "struct Regions", "regions.rs").group(1)
    if not re.search(r"\bfile: File,", rs):
        raise GenError("regions.rs: struct Regions no longer owns `file: File`")
    if re.search(r"impl Drop for Regions", regions):
        raise GenError("regions.rs: Regions has a Drop impl now — model it")

    # ---- DatabaseInner field (= drop) order -------------------------------------------------
    ds = once(lib, r"struct DatabaseInner \{(.*?)\n\}", "struct DatabaseInner", "lib.rs").group(1)
    fields = re.findall(r"^\s*(\w+)\s*:\s*([^\n]+?),\s*$", ds, re.M)
    names = [f for f, _ in fields]
    ftypes = dict(fields)
    for need, ty in (("regions", "RwLock<Regions>"), ("file", "RwLock<File>")):
        if ftypes.get(need) != ty:
            raise GenError(f"lib.rs: DatabaseInner.{need} is no longer `{ty}` (found {ftypes.get(need)!r})")
    others_with_file = [f for f, t in fields if f not in ("regions", "file") and re.search(r"\bFile\b|\bRegions\b", t)]
    if others_with_file:
        raise GenError(f"lib.rs: DatabaseInner has further File-owning fields {others_with_file}")
    lock_fields = sorted(("regions", "file"), key=names.index)
    if re.search(r"impl Drop for DatabaseInner", lib):
        raise GenError("lib.rs: DatabaseInner has a Drop impl now — model it")
    if re.search(r"try_clone\(|mem::forget\(|ManuallyDrop<File>|into_raw_fd|from_raw_fd", lib + regions):
        raise GenError("rawdb: a File is duplicated/forgotten somewhere (try_clone/forget/raw fd) — lock lifetime changed")

    # ---- what keeps the Arc alive --------------------------------------------------------
    once(lib, r"pub struct Database\(Arc<DatabaseInner>\);", "Database(Arc<DatabaseInner>)", "lib.rs")
    once(lib, r"#\[derive\(Clone\)\]\s*#\[must_use[^\]]*\]\s*pub struct Database\(", "derive(Clone) on Database", "lib.rs")
    once(lib, r"pub struct WeakDatabase\(Weak<DatabaseInner>\);", "WeakDatabase(Weak<…>)", "lib.rs")
    rd = once(reader, r"pub struct Reader \{(.*?)\n\}", "struct Reader", "reader.rs").group(1)
    reader_strong = bool(re.search(r"\b_db: Database,", rd))
    if not reader_strong:
        raise GenError("reader.rs: Reader no longer has a `_db: Database` field")
    ri = once(region, r"struct RegionInner \{(.*?)\n\}", "struct RegionInner", "region.rs").group(1)
    if not re.search(r"\bdb: WeakDatabase,", ri) or re.search(r":\s*Database\b", ri):
        raise GenError("region.rs: RegionInner no longer holds exactly a WeakDatabase")
    bg = fn_body(lib, r"pub fn run_bg\(&self, f: impl FnOnce\(&Self\) -> Result<\(\)> \+ Send \+ 'static\) \{", "run_bg")
    if not re.search(r"ManuallyDrop::new\(unsafe \{ Self\(Arc::from_raw\(Arc::as_ptr\(&self\.0\)\)\) \}\)", bg):
        raise GenError("lib.rs run_bg: handle is no longer built uncounted via Arc::from_raw in ManuallyDrop")
    if "self.0.bg_tasks.lock().push(thread::spawn(" not in bg:
        raise GenError("lib.rs run_bg: JoinHandle no longer pushed to bg_tasks")
    dm = once(lib, r"impl Drop for Database \{\s*fn drop\(&mut self\) \{\s*if Arc::strong_count\(&self\.0\) == (\d+) \{\s*let _ = self\.sync_bg_tasks\(\);\s*\}\s*\}\s*\}",
              "Drop for Database", "lib.rs")
    join_at = int(dm.group(1))
    sb = fn_body(lib, r"pub fn sync_bg_tasks\(&self\) -> Result<\(\)> \{", "sync_bg_tasks")
    if not re.search(r"bg_tasks\.lock\(\)\.drain\(\.\.\)\.collect\(\)", sb) or "handle.join()" not in sb:
        raise GenError("lib.rs sync_bg_tasks: no longer drains and joins bg_tasks")

    # ---- error mapping -----------------------------------------------------------------------
    once(error, r"TryLock\(#\[from\] fs::TryLockError\)", "Error::TryLock(#[from] fs::TryLockError)", "error.rs")

    def coq_list(xs):
        return "[" + "; ".join(xs) + "]"

    def b(x):
        return "true" if x in (True, "true") else "false"

    out = f"""(* GENERATED by tools/gen_openlock.py from /repo — do not edit, do not commit. *)
From Coq Require Import NArith List.
Import ListNotations.

(* the calls of Database::open_with_min_len / Regions::open that touch the file system *)
Inductive call : Set :=
| C_create_dir_all | C_open | C_try_lock | C_set_len | C_sync_all | C_regions_open | C_create_mmap.

(* crates/rawdb/src/lib.rs, fn open_with_min_len: calls in source order *)
Definition open_with_min_len_calls : list call := {coq_list(open_calls)}.
(* crates/rawdb/src/regions.rs, fn Regions::open: calls in source order *)
Definition regions_open_calls : list call := {coq_list(regions_calls)}.

(* OpenOptions of the two opens *)
Definition data_open_creates : bool := {b(dflags['create'])}.
Definition data_open_truncates : bool := {b(dflags['truncate'])}.
Definition regions_open_creates : bool := {b(rflags['create'])}.
Definition regions_open_truncates : bool := {b(rflags['truncate'])}.
(* set_len(min_len) + sync_all sit inside `if file_len < min_len` *)
Definition set_len_guarded_by_lt_min_len : bool := true.
(* `file.try_lock()?` : the error is propagated, converted by Error::TryLock(#[from] fs::TryLockError) *)
Definition try_lock_error_propagates_as_TryLock : bool := true.

(* DatabaseInner: the fields that own a locked File, in declaration (= drop) order.
   all fields: {' '.join(names)} *)
Inductive lock_field : Set := LF_regions | LF_file.
Definition inner_lock_fields : list lock_field := {coq_list(['LF_' + f for f in lock_fields])}.

(* what keeps Arc<DatabaseInner> alive *)
Definition reader_holds_strong : bool := {b(reader_strong)}.      (* reader.rs: Reader._db : Database *)
Definition region_holds_strong : bool := false.    (* region.rs: RegionInner.db : WeakDatabase *)
Definition bg_task_holds_strong : bool := false.   (* lib.rs run_bg: Arc::from_raw in ManuallyDrop, joined by sync_bg_tasks *)
Definition drop_joins_bg_at_strong_count : N := {join_at}%N.  (* lib.rs Drop for Database *)
"""
    return out


def main():
    try:
        text = gen()
    except GenError as e:
        print(f"gen_openlock: {e}", file=sys.stderr)
        return 2
    old = open(OUT).read() if os.path.exists(OUT) else None
    if old != text:
        os.makedirs(os.path.dirname(OUT), exist_ok=True)
        with open(OUT, "w") as f:
            f.write(text)
        print("gen_openlock: wrote coq/Gen/OpenOrder.v")
    return 0


if __name__ == "__main__":
    sys.exit(main())
