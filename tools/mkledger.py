#!/usr/bin/env python3
"""Rewrites the status-ledger table of DESIGN.md section 11 from evidence/*.json and
known_findings.txt, so that the ledger can never claim more than the last run of each check recorded."""
import json, os, re, glob
ROOT = os.path.dirname(os.path.dirname(os.path.abspath(__file__)))
known, fixed = {}, {}
for l in open(os.path.join(ROOT, "known_findings.txt")):
    m = re.match(r"(known|fixed): property=(\w+)", l)
    if m:
        (known if m.group(1) == "known" else fixed).setdefault(m.group(2), 0)
        (known if m.group(1) == "known" else fixed)[m.group(2)] += 1
rows = ["| id | engine(s) | theorems (coqc-accepted, last run) | `_partial` | `_refuted` | findings |", "|---|---|---|---|---|---|"]
for f in sorted(glob.glob(os.path.join(ROOT, "evidence", "C*.json"))):
    d = json.load(open(f)); c = d["coverage"]; pid = d["property_id"]
    th = c.get("theorems", [])
    full = [t for t in th if not t.endswith("_partial") and "_refuted" not in t and "example" not in t.lower()]
    show = ", ".join(f"`{t}`" for t in full[:6]) + (f", … ({len(th)} in all)" if len(th) > 6 else f" ({len(th)} in all)")
    rows.append(f"| {pid} | {', '.join(c.get('engines', []))} | {show} | {', '.join('`%s`' % t for t in c.get('partial', [])) or '—'} | "
                f"{', '.join('`%s`' % t for t in c.get('refuted', [])) or '—'} | {fixed.get(pid, 0)} fixed, {known.get(pid, 0)} known |")
p = os.path.join(ROOT, "DESIGN.md"); s = open(p).read()
a = s.index("| id | engine(s) |", s.index("## 11. Status ledger"))
b = s.index("\n\n", a)
s = s[:a] + "\n".join(rows) + s[b:]
open(p, "w").write(s)
print("ledger rows:", len(rows) - 2)
