#!/usr/bin/env python3
"""Regenerate coq/_CoqProject (lists every .v under coq/, Gen included) and the Makefile."""
import os, subprocess, sys
ROOT = os.path.dirname(os.path.dirname(os.path.abspath(__file__)))
COQ = os.path.join(ROOT, "coq")
def main():
    files = []
    for d, _, fs in os.walk(COQ):
        for f in fs:
            if f.endswith(".v") and not f.startswith("cases") and not f.startswith("."):
                files.append(os.path.relpath(os.path.join(d, f), COQ))
    files.sort()
    text = "-Q . Anydb\n-arg -w -arg -notation-overridden,-deprecated-hint-without-locality,-deprecated-instance-without-locality\n" + "\n".join(files) + "\n"
    p = os.path.join(COQ, "_CoqProject")
    old = open(p).read() if os.path.exists(p) else None
    if old != text or not os.path.exists(os.path.join(COQ, "Makefile")):
        open(p, "w").write(text)
        subprocess.check_call(["coq_makefile", "-f", "_CoqProject", "-o", "Makefile"], cwd=COQ)
if __name__ == "__main__":
    main()
