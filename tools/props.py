"""Per-property configuration of ./check (engines, budgets, classification, trusted base)."""

TRUSTED_BASE = [
    "Coq 8.16.1 kernel via coqc (full .vo build; vm_compute used, native_compute not used)",
    "tools/gen_consts.py (+ `harness consts`): translator that regenerates coq/Gen/*.v from /repo",
    "extraction with ExtrOcamlBasic only (Extract Inductive bool/option/unit/list/prod/sumbool/sumor, Extract Inlined Constant andb/orb); OCaml 4.13.1 + zarith driver",
    "the Rust harness (built from /repo's working tree with --cfg anydb_verif) observes the implementation faithfully",
    "hand-written Gallina model: tied to the code only by Gen/ regeneration and by the differential correspondence",
]
ASSUMPTIONS = [
    "usize is 64 bits, little-endian target",
    "no Axiom/Parameter/Admitted in the development (grep + Print Assumptions audit on every run)",
]


def default_classify(inp, obs, tags):
    kind = inp.split(" ", 1)[0]
    o = obs[0] if obs else ""
    cls = " ".join(o.split()[:2]) if o.startswith("err") else o.split(" ", 1)[0]
    return [f"{kind}:{cls}"], True


def codec_classify(inp, obs, tags):
    kind = inp.split(" ", 1)[0]
    o = obs[0] if obs else ""
    cls = " ".join(o.split()[:2]) if o.startswith("err") else o.split(" ", 1)[0]
    trivial = o in ("err InvalidMetadataSize", "err WrongLength", "err BadWidth")
    return [f"{kind}:{cls}"], not trivial


PROPS = {
    "C17": dict(
        engines=[dict(
            name="codec", classify=codec_classify,
            quick=dict(cases=24000, shards=4, profiles=["debug", "release"]),
            thorough=dict(cases=2000000, shards=16, profiles=["debug", "release"]),
        )],
        rule="inputs: 12 codec case kinds in rotation (metadata slots 60% valid / 40% boundary+malformed, encoders at and "
             "around the limits, headers, pages, numeric widths 1-16, byte arrays, regions files with mixed valid/invalid "
             "slots), all from one SplitMix64 state; non-trivial = not rejected by the very first length check; distinct = "
             "distinct input string",
        trusted_base=["UTF-8 validity is modelled by a hand-written DFA (Codec/Utf8.v), validated against String::from_utf8 differentially"],
        assumptions=["change-record codecs are covered under C16 (same engine family)"],
    ),
}
