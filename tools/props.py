"""Per-property configuration of ./check.  Each property lives in tools/propdefs/<Cxx>.py, which
defines PROP (engines, budgets, rule, trusted base), TEXT (manifest texts) and ENGINES
(manifest engine entries).  This module only collects them."""
import glob, importlib.util, os

TRUSTED_BASE = [
    "Coq 8.16.1 kernel via coqc (full .vo build; vm_compute used, native_compute not used)",
    "tools/gen_consts.py (+ `harness consts`): translator that regenerates coq/Gen/*.v from /repo",
    "extraction with ExtrOcamlBasic only (Extract Inductive bool/option/unit/list/prod/sumbool/sumor, Extract Inlined Constant andb/orb); OCaml 4.13.1 + zarith driver",
    "the Rust harness (built from /repo's working tree with --cfg anydb_verif) observes the implementation faithfully",
    "hand-written Gallina model: tied to the code only by Gen/ regeneration and by the differential correspondence",
]
ASSUMPTIONS = [
    "usize is 64 bits, little-endian target",
    "no Axiom/Parameter/Admitted in the development (grep + Print Assumptions audit on every run)",
]


def default_classify(inp, obs, tags):
    """(distribution tags, non-trivial?) of one case."""
    kind = inp.split(" ", 1)[0]
    o = obs[0] if obs else ""
    cls = " ".join(o.split()[:2]) if o.startswith("err") else o.split(" ", 1)[0]
    return [f"{kind}:{cls}"] + list(tags), True


PROPS, TEXT, ENGINES = {}, {}, []
_here = os.path.dirname(os.path.abspath(__file__))
for _f in sorted(glob.glob(os.path.join(_here, "propdefs", "C*.py"))):
    _spec = importlib.util.spec_from_file_location(os.path.basename(_f)[:-3], _f)
    _m = importlib.util.module_from_spec(_spec)
    _spec.loader.exec_module(_m)
    _id = os.path.basename(_f)[:-3]
    PROPS[_id] = _m.PROP
    TEXT[_id] = _m.TEXT
    for e in getattr(_m, "ENGINES", []):
        if not any(x["name"] == e["name"] for x in ENGINES):
            ENGINES.append(e)
        else:
            for x in ENGINES:
                if x["name"] == e["name"]:
                    x["serves_properties"] = sorted(set(x["serves_properties"]) | set(e["serves_properties"]))
