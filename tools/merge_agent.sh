#!/bin/sh
# tools/merge_agent.sh <name> — copy the NEW source files of a builder's working copy into /verif
# (never overwrites an existing file; shared files are not touched).
set -e
A=/root/agents/$1/verif
cd $A
find coq -name '*.v' ! -path 'coq/Gen/*' ! -name 'Extract.v' ! -name 'cases*.v' > /tmp/merge.$1
find coq/Extract -name '*.ext' >> /tmp/merge.$1
find ocaml -maxdepth 1 -name 'eng_*.ml' >> /tmp/merge.$1
find harness/src -name 'eng_*.rs' >> /tmp/merge.$1
find tools/propdefs -name 'C*.py' >> /tmp/merge.$1
find tools -maxdepth 1 \( -name 'gen_*.py' -o -name 'propdefs_*fragment*.py' -o -name 'rs2v.py' -o -name 'locks.py' \) >> /tmp/merge.$1
[ -d corpus ] && find corpus -type f >> /tmp/merge.$1
rsync -a --ignore-existing ${2:+--existing} --files-from=/tmp/merge.$1 $A/ /verif/ -v | grep -v '/$' | head -50
