"""C02 — rawdb: region extents never overlap; free space is fully accounted and reused."""


def classify(inp, obs, tags):
    ops = inp.split()[1:]
    kinds = sorted({o.split(":")[0] for o in ops})
    nontrivial = len(tags) >= 2 or ("place:relocate" in tags)
    return [f"op:{k}" for k in kinds] + list(tags), nontrivial


PROP = dict(
    engines=[dict(
        name="rawdb", classify=classify, shrink="ops",
        quick=dict(cases=480, shards=8, profiles=["debug"]),
        thorough=dict(cases=12000, shards=16, profiles=["debug", "release"]),
    )],
    model_targets=["Extract/Extract.vo"],
    rule="state-aware random histories (20-90 ops) over create / append / write_at / truncate_write / truncate / rename / "
         "remove (with and without a second live handle) / retain / flush / region flush / compact / reopen / set_min_len / "
         "set_min_regions, sizes from {0,1,sub-page,4095/4096/4097,straddling,multi-doubling,>1 MiB}, 15% malformed requests; "
         "after EVERY step the whole allocator state (slots, all five layout maps incl. tie-break order, file length, regions "
         "file) and sampled bytes of every region are compared with the extracted Coq model, and a plain Rust reference (one "
         "byte vector per name) is compared byte for byte with read_all(); non-trivial = the history took at least two of the "
         "placement paths create / grow-in-place / relocate; distinct = distinct history",
    trusted_base=["region byte contents in the model are functions N -> N; the differential compares them at sampled offsets, the full bytes are compared with the Rust reference"],
)

ENGINES_UNUSED = [
    dict(name="rawdb", path="harness/src/eng_rawdb.rs + ocaml/eng_rawdb.ml", serves_properties=["C01", "C02", "C13"],
         kind_free_text="differential on operation histories: real rawdb vs extracted Coq allocator model (full internal state after every step) + reference byte vectors + extent-invariant oracle on the real layout"),
]

TEXT = dict(
    design_ref="DESIGN.md section 4, C02",
    technique="Coq invariant proof (extent tiling) over allocator model + extracted-model differential + invariant oracle on real layout",
    text=("Proof: Props/C02.v (14 theorems, all full): the extent invariant Inv (page alignment, every address below layout_len "
          "owned by exactly one live region / hole / pending hole / reservation and none above, no adjacent holes, layout_len <= "
          "file_len, len <= reserved, index consistency) holds in the initial state and is preserved by EVERY step of the allocator "
          "model with no side condition (C02_inv_step_strong), hence in every state of every history (C02_reachable_strong); "
          "C02_regions_disjoint / C02_region_shape / C02_exact_cover spell out the property text; C02_reuse: a placement in a state "
          "that has an adequate hole does not grow the allocated area. inv_b is a boolean checker proved EQUIVALENT to Inv "
          "(C02_inv_b_spec); extracted, it is evaluated on every real allocator state the differential agreed on, and the harness "
          "evaluates the extent predicate and the reuse clause on the real layout after every step."),
    note=("Trusted: Coq kernel; gen_consts.py; extraction + OCaml driver; harness. The allocator is modelled, not verified: "
          "the tie is differential agreement on a bounded sample of histories. Sequential semantics only (concurrency is C10)."),
)

ENGINES = []
