"""C13 — an operation that reports an error has no effect (rawdb part; vecdb part pending)."""


def classify(inp, obs, tags):
    ops = inp.split()[1:]
    kinds = sorted({o.split(":")[0] for o in ops})
    nontrivial = len(tags) >= 2 or ("place:relocate" in tags)
    return [f"op:{k}" for k in kinds] + list(tags), nontrivial


PROP = dict(
    engines=[dict(
        name="rawdb", classify=classify, shrink="ops",
        quick=dict(cases=480, shards=8, profiles=["debug"]),
        thorough=dict(cases=12000, shards=16, profiles=["debug", "release"]),
    )],
    model_targets=["Extract/Extract.vo"],
    _vecerr=True,
    rule="[engine vecerr: five refused requests in rotation x four formats - checked_push at a wrong index, remove of a held vector, plain import with another version, rollback without a record, plain import of the name through ANOTHER storage format (no auxiliary region may appear)] state-aware random histories (20-90 ops) over create / append / write_at / truncate_write / truncate / rename / "
         "remove (with and without a second live handle) / retain / flush / region flush / compact / reopen / set_min_len / "
         "set_min_regions, sizes from {0,1,sub-page,4095/4096/4097,straddling,multi-doubling,>1 MiB}, 15% malformed requests; "
         "after EVERY step the whole allocator state (slots, all five layout maps incl. tie-break order, file length, regions "
         "file) and sampled bytes of every region are compared with the extracted Coq model, and a plain Rust reference (one "
         "byte vector per name) is compared byte for byte with read_all(); non-trivial = the history took at least two of the "
         "placement paths create / grow-in-place / relocate; distinct = distinct history",
    trusted_base=["region byte contents in the model are functions N -> N; the differential compares them at sampled offsets, the full bytes are compared with the Rust reference"],
)

ENGINES_UNUSED = [
    dict(name="rawdb", path="harness/src/eng_rawdb.rs + ocaml/eng_rawdb.ml", serves_properties=["C01", "C02", "C13"],
         kind_free_text="differential on operation histories: real rawdb vs extracted Coq allocator model (full internal state after every step) + reference byte vectors + extent-invariant oracle on the real layout"),
]

TEXT = dict(
    design_ref="DESIGN.md section 4, C13",
    technique="Coq proof that every error path of the allocator model returns the unchanged state + extracted-model differential with before/after state dumps",
    text=("Proof: Props/C13.v: C13_rawdb — from every state satisfying the extent invariant, every refused allocator request "
          "(write beyond the end, truncate beyond the length, rename onto an existing name, removal or retain of a still-referenced "
          "region, ...) returns the state UNCHANGED (the model's error results carry the state at the point of failure, so this is a "
          "theorem, not a convention); on the real code the complete allocator state dump before/after every refused request is "
          "compared. vecdb part: the refusals are theorems of the vector models (C14_plain_mismatch / C14_import_never_touches, "
          "C16_fail_single / C16_comp_fail_single, C03_step_refines for checked push) and engine vecerr checks on the real code that "
          "each refused request (checked push, remove of a held vector, mismatching import, rollback without record) leaves every "
          "region, the change directory and the re-imported contents unchanged."),
    note=("Trusted: Coq kernel; gen_consts.py; extraction + OCaml driver; harness. The allocator is modelled, not verified: "
          "the tie is differential agreement on a bounded sample of histories. Sequential semantics only (concurrency is C10)."),
)

ENGINES = []


def _classify_vecerr(inp, obs, tags):
    t = inp.split()
    return [f"vec:{t[0]}", f"request:{t[2]}"] + list(tags), any(x.startswith("result:") and ":err:" in x for x in tags)


PROP["engines"] = PROP["engines"] + [dict(
    name="vecerr", classify=_classify_vecerr,
    quick=dict(cases=320, shards=4, profiles=["debug"]),
    thorough=dict(cases=8000, shards=16, profiles=["debug", "release"]),
)]
PROP["rule"] += (" || vecdb part (engine vecerr, implementation-only oracles): BytesVec/ZeroCopyVec/PcoVec/LZ4Vec brought into a "
                 "generated state (stored values, raw: deleted slots with a holes region, buffered values, change records), then a "
                 "refused request: checked_push at a wrong index, remove() while the data region is still held, plain import with a "
                 "mismatching version, rollback with the change records deleted; every region's bytes, the change directory and the "
                 "contents after re-import are compared before/after; non-trivial = the request was refused")
ENGINES = [dict(name="vecerr", path="harness/src/eng_vecerr.rs + ocaml/eng_vecerr.ml", serves_properties=["C13"],
                kind_free_text="implementation-only oracle: refused vecdb requests leave every region, the change directory and the re-imported contents unchanged")]
TEXT["text"] = TEXT["text"].replace("The vecdb part (import mismatch, checked push, rollback without record) is covered by C14/C04/C16 engines as they land.",
    "vecdb part: the refusals are theorems of the vector models (C14_plain_mismatch / C14_import_never_touches, C16_fail_single / C16_comp_fail_single, C03_step_refines for checked push) and engine vecerr checks on the real code that each refused request (checked push, remove of a held vector, mismatching import, rollback without record) leaves every region, the change directory and the re-imported contents unchanged.")
