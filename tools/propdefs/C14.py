"""C14 — vecdb: import keeps matching data; discards only on a real version/format change."""

# Translator (A) of this property: coq/Gen/ImportFacts.v (which regions the reset arm of
# forced_import_with removes) is regenerated from /repo by tools/gen_import.py (run by vlib.regen).


def classify(inp, obs, tags):
    """distribution = the M tags of the harness (family/entry of creation -> family/entry of reopening : outcome);
    non-trivial = the vector was created and the reopening was actually attempted."""
    t = inp.split()
    extra = []
    if len(t) >= 12:
        extra.append("type:" + t[6] + ("/eager" if t[7] == "e" else ""))
        if t[10] != "n":
            extra.append("tamper:" + t[10])
        if t[9] == "1":
            extra.append("with-holes-region")
    return list(tags) + extra, len(obs) >= 2


_budget = dict(cases=5160, shards=8, profiles=["debug", "release"], extra=["--shards", "8"])

PROP = dict(
    engines=[dict(name="import", classify=classify, quick=_budget, thorough=_budget)],
    exhaustive=True,
    rule="EXHAUSTIVE enumeration, identical in both tiers and both build profiles (debug = overflow checks on, release = "
         "off): {import, forced_import} x {import, forced_import} x the five formats at creation x the five formats at "
         "reopening x user versions v2 - v1 in -6..+6 (covers every coincidence of effective versions, adds*VERSION <= 6) x "
         "{empty, 5 values, 5 values + holes region (raw creator)} for u32; the same with v2 - v1 in {0, 1} for u16, u64, "
         "i64 and for EagerVec wrappers; damaged stored regions (header_version, format byte, short main region, malformed "
         "holes/page-index region: outside the property, compared with the model only, except that a damaged header "
         "reset by the forced import must give an empty vector) x formats x entry points; versions at the top of u32 x formats x entry points. "
         "Every case whose reopening succeeds continues with a THIRD step: four more values are pushed, written and "
         "flushed, and the SAME request (entry point, version, format) is issued again (2639 of the 5160 cases in the debug "
         "profile; covers every reset and every kept path). 5160 cases per profile. non-trivial = creation succeeded and the reopening was attempted; distinct = distinct "
         "input line. The spec-level oracle is the property text evaluated on the implementation alone.",
    trusted_base=[
        "the vector's regions are modelled abstractly (decoded header fields, byte length, value list; auxiliary regions by "
        "length and entries); the compressors' output length is an uninterpreted quantity (theorems hold for every value)",
        "environment errors (TryLock/IO/RawDB) are modelled as a fault injected at the first database call of import_with; "
        "they are not injected on the real code",
    ],
    assumptions=[
        "reopening happens in the same process after the vector was dropped (no crash between write and reopen: C05)",
        "element type and index type are the same at creation and reopening",
    ],
)

ENGINES = [
    dict(name="import", path="harness/src/eng_import.rs + ocaml/eng_import.ml", serves_properties=["C14"],
         kind_free_text="exhaustive differential: real import/forced_import of all five wrappers (and EagerVec) over the "
                        "cross product of entry points, versions, formats, element types, auxiliary regions and damaged "
                        "regions vs the extracted Coq model; implementation-only oracle = the property text"),
]

TEXT = dict(
    design_ref="DESIGN.md section 4, C14",
    technique="Coq proof over a model of both import entry points (constants regenerated from the source) + exhaustive "
              "extracted-model differential",
    text=("Proof: Coq theorems C14_* (Props/C14.v), for ALL user versions (u32 arithmetic, with and without overflow "
          "checks), all five formats, both entry points, all data and holes: reopening through the SAME entry point with "
          "the same version and format returns the stored contents and changes nothing; a plain import on a mismatch "
          "returns DifferentVersion/DifferentFormat and leaves every region as it was (and never modifies an existing "
          "region of ANY store); a forced import on a mismatch returns an empty vector with a fresh header; a forced "
          "import replaces the main region ONLY IF the effective versions or formats differ (for any store: or the stored "
          "header is damaged, or an auxiliary region is malformed) and never on TryLock/IO/RawDB/CorruptedRegion/"
          "InvalidFormat errors; a vector re-created by the reset (or kept) and then written is returned unchanged by the "
          "same request again (C14_reset_then_same_request_keeps, C14_extend_then_same_request_keeps). The exact statements are in terms of the effective version user_version + "
          "adds(entry)*VERSION(layer), with adds and VERSION regenerated from the source. The user-level statement of "
          "each part is REFUTED across entry points (C14_*_refuted): forced_import adds VERSION twice, so "
          "import(v) -> forced_import(v) discards matching data, forced_import(v) -> import(v) is DifferentVersion, "
          "forced_import(v) -> import(v+VERSION) serves old data under a new version. Which regions the reset removes is "
          "read from the source (Gen/ImportFacts.v): the raw family's reset once left the holes region behind (found by "
          "this check, repaired in 5d157a9); removing that line again breaks C14_forced_mismatch. The model agrees with the real code on the "
          "complete cross product (5160 cases x debug/release), each continued by write + same request again where the "
          "reopening succeeded."),
    note=("Trusted: Coq kernel; gen_consts.py; extraction (ExtrOcamlBasic) and the OCaml driver; the Rust harness. The Rust "
          "code is modelled, not verified. Environment faults are modelled only. Known findings are listed by oracle key."),
)
