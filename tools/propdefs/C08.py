"""C08 — vecdb: all read paths agree for every range and never panic."""


def classify(inp, obs, tags):
    t = inp.split(" ")
    out = [x for x in tags if x.startswith(("kind:", "regime:", "backend:", "op-error", "op-panic"))]
    out += [x for x in tags if x in ("multi-page", "multi-chunk", "pages>1", "io-multi-buffer", "panic", "reference-off")]
    out += ["m:" + x[2:].split(".", 1)[1] for x in tags if x.startswith("m:")]
    out += ["target:" + x[2] for x in tags if x.startswith("m:")]
    methods = {x for x in tags if x.startswith("m:")}
    some = any((o.startswith(("v ", "e ", "h ")) and not o.startswith(("v - ", "e - ", "h - "))) or o.startswith("o ") and not o.startswith("o none") for o in obs)
    return sorted(set(out)), (some and len(methods) >= 4)


PROP = dict(
    engines=[dict(
        name="reads", classify=classify,
        quick=dict(cases=120, shards=6, profiles=["debug", "release"]),
        thorough=dict(cases=2400, shards=16, profiles=["debug", "release"]),
    )],
    rule="[cases 11-14 of every run are directed: a rollback leaves a slot both deleted and in the overlay, later slots updated (11-12) / the same state behind the region end after a second rollback of a truncating commit (13-14), then the fallible and infallible folds] one case = one real vector (BytesVec<u64>, BytesVec<5-byte non-native element>, ZeroCopyVec<u64>, PcoVec/LZ4Vec/"
         "ZstdVec<u64>, EagerVec<BytesVec>, EagerVec<PcoVec>; 35% with rollback support) driven through 1-3 phases of a short "
         "history (push, flush / stamped flush, truncate, update, delete, fill hole, rollback; sizes 0-40 (62%), around "
         "2048/3276/4096/6144/8192 elements = page and cursor-chunk boundaries (30%), more than one 512 KiB IO buffer (4%, raw)); "
         "after each phase the real state is dumped and 10-18 reads are drawn over every ReadableVec method (sized and dyn), "
         "VecReader get/try_get, read_at_once, get_any_or_read, get_pushed_or_read, collect_holed_range, fold_stored_io/mmap, "
         "read_ref_at, cursor scripts (get/next/advance/fold/position/remaining), sorted index lists with duplicates and "
         "out-of-range tails, signed ranges, early-exit try_fold; targets: the vector, its read-only clone, a CachedVec wrapper, "
         "the CachedVec's read-only clone (shared cache), a boxed dyn clone; ranges: empty, reversed, out of bounds, inside one "
         "page, straddling page/chunk boundaries, straddling the stored/buffered boundary, whole, usize::MAX; both scan "
         "back-ends (crossover 0 / 1 GiB); non-trivial = some read returned a value and >= 4 distinct target.method pairs ran; "
         "distinct = distinct input line",
    trusted_base=[
        "the state fed to the model is the harness's dump of the real vector (region bytes read through rawdb, stored_len, pushed, "
        "holes, updated, page index); page contents of compressed pages are taken from the harness's committed reference "
        "(raw pages are decoded and cross-checked), so losslessness of the compressors (C07) is assumed by the model level only",
        "a read that produces more than 4e6 tap events is aborted and reported as non-terminating",
    ],
    assumptions=[
        "element types u64 and a 5-byte little-endian type with IS_NATIVE_LAYOUT = false; the vector's Version is constant over a case",
        "histories stop at the first operation that returns an error (C04/C13 are judged by their own checks)",
    ],
)

ENGINES = [
    dict(name="reads", path="harness/src/eng_reads.rs + ocaml/eng_reads.ml", serves_properties=["C08", "C20"],
         kind_free_text="differential: every read path of real raw/compressed/eager/cached vectors and their read-only clones vs the "
                        "extracted Coq read-path models (results and fetched byte ranges), plus implementation-only oracles: result == "
                        "reference contents restricted to the request, no panic / no hang (C08); every tapped mmap/file access inside the "
                        "vector's own region (C20)"),
]

TEXT = dict(
    design_ref="DESIGN.md section 4, C08",
    technique="Coq proof per read path over an executable model of the read side + extracted-model differential with access tap",
    text=("Proof: Coq theorems C08_* (Props/C08.v) over executable transcriptions of the read paths: for every well-formed "
          "raw-vector state (deleted slots, `updated` overlay, stored_len above the on-disk length) and every from/to, "
          "read_into_at (memcpy, per-element and dirty paths), fold_range_at, try_fold_range_at (with early exit), fold_dirty, "
          "both scan back-ends (RawMmapSource, RawIoSource refill arithmetic), collect_one_at, get_any_or_read_at, "
          "collect_holed_range, read_at_once, read_ref_at yield exactly the logical contents restricted to the request and do "
          "not panic; on states without deleted slots the cursor (get/next/fold), the default sorted read (any index list) and a "
          "freshly filled CachedVec do too; for compressed vectors (codec hypothesis built into the state) "
          "read_stored_pages_into, read_into_at, the mmap and IO sources, fold/try_fold, cursor, sorted reads and CachedVec. "
          "C08_agree is the conjunction. Refuted by the faithful model and kept as *_full with *_refuted witnesses: cursor / "
          "sorted reads over a deleted slot (panic, wrong value, non-termination), CachedVec keyed on (len, version), lean clones "
          "ignoring deleted slots. The models are validated against the real vectors (debug and release builds) on generated "
          "states, results and fetched byte ranges compared."),
    note=("Trusted: Coq kernel; extraction and the OCaml driver; the Rust harness and the access taps. The Rust code is modelled, "
          "not verified: the tie is regenerated constants plus differential agreement on generated inputs (bounded sample)."),
)
