"""C10 — rawdb: concurrent work on distinct regions is isolated; no foreign bytes read."""


def classify(inp, obs, tags):
    progs = [t for t in inp.split() if t[:1] == "T"]
    kinds = sorted({o.split(":")[0] for p in progs for o in p.split("=", 1)[1].split(",") if o and o != "-"})
    sw = next((t for t in tags if t.startswith("switches:")), "switches:0")
    nontrivial = sw != "switches:0" and any(t.startswith("path:") for t in tags)
    return [f"threads:{len(progs)}"] + [f"op:{k}" for k in kinds] + list(tags), nontrivial


PROP = dict(
    engines=[dict(
        name="schedraw", classify=classify,
        quick=dict(cases=400, shards=8, profiles=["debug"]),
        thorough=dict(cases=8000, shards=16, profiles=["debug", "release"]),
    )],
    model_targets=["Extract/Extract.vo"],
    rule="a controller drives 2-3 real threads on one real Database, each running its own operation sequence (create / append / "
         "write_at / truncate_write / truncate / remove / flush / compact, or open-read-close of a Reader on another thread's "
         "region) on its OWN regions; every lock accessor and named pause point parks the thread that hits it, so exactly one "
         "thread runs at a time and the schedule on the I line (thread picks, run-until-label, run-to-end-of-operation) "
         "determines the execution at lock-acquisition granularity. Shard 0 first runs 28 directed schedules for the windows "
         "named in the property (create/create, relocation reserved/copied vs create, relocation to the end between create's "
         "file-length check and its allocation, two relocations, extension of the last region around set_min_len, remove vs "
         "relocate with a flush in between, flush/compact vs remove, reader lifetime across relocation [+ flush + reuse | + "
         "compact | in-place writes | truncate + compact | file growth | remove], compact placed between write_with's data copy and its length update); all "
         "other cases are random programs with random schedules (bursts, run-until directives). Spec-level oracles in the "
         "harness: per-thread reference byte vectors after every operation and at the end, operation results equal to the "
         "results in isolation, extent invariant at quiescence, reader bytes within the bytes the region held since the "
         "reader's creation, no thread stuck while its lock is free, no deadlock. Model level: the realised sequence of yield "
         "points (thread:label), all results, the final allocator state and all final contents equal the extracted step "
         "model's; the model side also evaluates the decidable hypothesis of C10_isolation_partial on every step (the step's "
         "write footprint avoids the live bytes of every region it does not target; an `S` line otherwise) and checks that the "
         "step model run WITHOUT interleaving leaves exactly the state of the sequential model Rawdb/Alloc.v. non-trivial = at least one thread switch and one of the tracked code paths; distinct = distinct I line",
    trusted_base=["the controller observes lock availability through Database::verif_lock_state (only the four database-level locks are ever held across a yield point)",
                  "a step of the model = the code between two consecutive yield points, executed atomically: hardware/compiler reorderings inside a step and the kernel's mmap/pread coherence are assumed"],
    assumptions=["threads work on distinct regions (readers excepted); a thread holding a Reader performs only reads until it drops it"],
)

ENGINES = [
    dict(name="schedraw", path="harness/src/eng_schedraw.rs + ocaml/eng_schedraw.ml", serves_properties=["C10", "C12"],
         kind_free_text="schedule replay: real threads parked at lock acquisitions / pause points by a controller (directed + random schedules) with spec-level oracles, compared step for step with the extracted Coq step model"),
]

TEXT = dict(
    design_ref="DESIGN.md section 4, C10",
    technique="Coq step model at lock-acquisition granularity (frame theorem, refutation witnesses) + schedule replay on the real code",
    text=("Proof on the step model; partial: hardware/compiler reorderings within a step and the kernel's mmap coherence are "
          "assumed. Conc/SrSteps.v splits every rawdb operation at its lock acquisitions and pause points exactly where the "
          "code drops and re-takes locks; Props/C10.v proves, for all states, any number of threads and all schedules, the "
          "memory frame theorem (a step changes the data map only inside its declared footprint) and the placement frame "
          "theorem (a step leaves start/len/reserve/id of every slot it does not target alone), from them the restricted "
          "isolation theorem (no step targeting slot i and no footprint meeting its live bytes => region i keeps its "
          "placement and every byte) and the restricted reader theorem (no footprint in the reader's snapshot range => "
          "the reader yields the bytes of its creation), and REFUTES the unconditional reader statement, per-thread isolation "
          "and the quiescent extent invariant by concrete schedules that the harness reproduces on the real code (known "
          "findings). The model is tied to the code by replaying directed and random schedules on real "
          "threads and comparing the sequence of yield points, all results, the final allocator state and all contents."),
    note=("Trusted: Coq kernel; extraction + OCaml driver; the harness controller and the taps. The per-thread refinement to "
          "AllocSpec for all schedules is NOT proved (it needs the sequential extent-invariant induction of C02 lifted to "
          "steps, and it is false in general: see the refutations); what is proved are the two frame theorems, the "
          "restricted isolation and reader theorems and the refutations; the footprint hypothesis is evaluated on every "
          "explored schedule. Weak memory and "
          "mmap coherence inside a step are not modelled."),
)
