"""C03 — vecdb: every storage format behaves like one reference vector at every step.
Compressed formats: engine compvec (Props/C03comp.v).  Raw formats: engine rawvec (Props/C03raw.v), merged when the raw builder's model follows the repaired code."""


def classify(inp, obs, tags):
    t = inp.split(" ", 2)
    out = [f"format:{t[0]}", f"type:{t[1]}"] + list(tags)
    ops = inp.split(" ")[3:]
    for o in ops:
        out.append("op:" + {"p": "push", "t": "truncate", "w": "write", "f": "flush", "s": "stamped-write", "r": "reset",
                            "i": "reimport", "o": "reopen"}.get(o.split(":")[0], "other"))
    n = sum(int(o.split(".")[-1]) for o in ops if o.startswith("p:") and "." in o)
    per_page = 16384 // {"u8": 1, "u16": 2, "a3": 3, "u32": 4, "f32": 4, "u64": 8, "i64": 8, "f64": 8, "u128": 16}.get(t[1], 8)
    out.append("pushed-pages:" + ("<1" if n < per_page else "1-2" if n < 2 * per_page else "2-4" if n < 4 * per_page else ">=4"))
    for o in obs:
        r = o.split(" ", 2)[1] if " " in o else o
        if r.startswith("err") or r == "panic":
            out.append("result:" + r)
    regimes = {x for x in tags if x.startswith("regime:") and x != "regime:noop"}
    return sorted(set(out)), len(regimes) >= 2


PROP = dict(
    engines=[dict(
        name="compvec", classify=classify,
        quick=dict(cases=480, shards=16, profiles=["debug"]),
        thorough=dict(cases=12000, shards=16, profiles=["debug", "release"]),
    )],
    extra_targets=["Vec/CvInstProofs.vo"],
    rule="histories: format in {pco,lz4,zstd} and EagerVec wrappers, element type in u8/u16/u32/u64/i64/f32/f64 (+u128,[u8;3] "
         "for lz4/zstd), 6-27 state-aware operations: pushes of 1 value ... 3 pages incl. exactly filling / one short of / "
         "overflowing the current page by one, value classes extremes / random bits / float specials (NaN payloads, +-0, "
         "subnormals, infinities) / small / constant / arithmetic; truncations into the raw page, into a compressed page, on a "
         "page boundary, to 0, inside the pushed buffer, no-op; write, flush+Database::flush, stamped write, reset (55% of "
         "histories may contain it), drop+re-import and close+reopen+re-import at any point; all from one SplitMix64 state. "
         "non-trivial = at least two different non-noop write regimes (fast raw append / partial-page re-encode / fresh pages / "
         "truncate-only) taken; distinct = distinct input line (real compressed sizes included)",
    trusted_base=[
        "pco / lz4_flex / zstd are not modelled: the compressor is a Section variable with the round-trip hypothesis "
        "(tested here on every full page written, never proved); the executable stand-in (Vec/CvInst.v) is proved to satisfy it",
        "the abstract rawdb region (Vec/CvRegion.v: write_at / truncate / truncate_write with rawdb's error rules) stands for the "
        "allocator; that rawdb refines it is C01",
    ],
    assumptions=[
        "the lengths of the real compressor's outputs enter the model as per-page hints read back from the on-disk index "
        "(`compress` takes a hint the real compressors ignore; every theorem quantifies over all hints)",
        "flush()/Database::flush() have no effect on the abstract regions (durability is C05)",
        "stamped writes are exercised with saved_stamped_changes = 0; rollback of compressed vectors is C04/C16",
    ],
)

ENGINES_C07 = [
    dict(name="compvec", path="harness/src/eng_compvec.rs + ocaml/eng_compvec.ml", serves_properties=["C07", "C03"],
         kind_free_text="differential: real PcoVec/LZ4Vec/ZstdVec (+EagerVec wrappers) vs the extracted Coq model of the "
                        "compressed vector after every step (len, contents digest, stamp, stored_len, pushed, in-memory page "
                        "length, data region length, header bytes and the whole `_pages` region read through rawdb), plus two "
                        "implementation-only oracles: a reference Vec stepped alongside and the C07 page-index predicate"),
]

import importlib.util as _u, os as _os
_spec = _u.spec_from_file_location("c03raw", _os.path.join(_os.path.dirname(_os.path.dirname(_os.path.abspath(__file__))), "propdefs_C03_raw_fragment.py"))
_raw = _u.module_from_spec(_spec); _spec.loader.exec_module(_raw)
PROP["engines"] = PROP["engines"] + _raw.PROP["engines"]
PROP["rule"] = PROP["rule"] + " || " + _raw.PROP["rule"]

ENGINES = _raw.ENGINES

_RAW_TEXT = ("Proof. Raw formats (BytesVec, ZeroCopyVec, EagerVec wrappers), Props/C03raw.v: C03_refines_raw - for ALL histories "
             "of push, truncate, write, flush, reset, re-import, update, delete, take, fill and stamped writes, all element types "
             "and retention settings, after EVERY step results, contents (length, deleted slots) and stamp equal the reference; "
             "C03_reimport, C03_no_garbage, C03_write_ok (unbounded induction, Vec/RvRefine.v); C03_reachable_not_expanded "
             "(without rollbacks the stored length never exceeds the on-disk length).")

TEXT = dict(
    design_ref="DESIGN.md section 4, C03",
    technique="Coq refinement proof (compressed vector model -> reference vector) for all histories + extracted-model differential on every format",
    text=(_RAW_TEXT + " Compressed formats: Props/C03comp.v proves, for ALL histories of push, truncate, "
          "write, flush, stamped write, reset and re-import at any point and ALL compressor output lengths, that the "
          "branch-for-branch model of ReadWriteCompressedVec refines the reference vector (contents, length, stamp) after every "
          "step and that no step errs; the model is compared with real PcoVec/LZ4Vec/ZstdVec and EagerVec wrappers on its "
          "complete internal state after every step, and a plain reference Vec is stepped alongside the real code."),
    note=("Trusted: Coq kernel; gen_consts.py; extraction + OCaml driver; harness; the compressors' round trip is a hypothesis "
          "(tested). The Rust code is modelled, not verified."),
)
