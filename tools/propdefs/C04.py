"""C04 — vecdb: rollback restores exactly the previously committed state, repeatedly (raw vectors)."""


def classify(inp, obs, tags):
    toks = inp.split()
    cfg = [t for t in toks if "=" in t]
    ops = [t for t in toks if "=" not in t]
    out = [t for t in tags if t.startswith(("profile:", "taint:", "write:", "rbb-err", "resync", "big", "relocated"))]
    out += ["op:" + t.split(":")[2] + ":" + ":".join(t.split(":")[3:]) for t in tags if t.startswith("op:rollback")]
    out += [c for c in cfg if c.startswith(("fmt=", "ty=", "k="))]
    kinds = {o.split(":")[0] for o in ops}
    # non-trivial = at least one commit AND one rollback were executed, with edits in between
    nontrivial = "c" in kinds and bool(kinds & {"rb", "rbb"}) and bool(kinds & {"p", "P", "t", "u", "d", "k", "h"})
    return out, nontrivial


PROP = dict(
    engines=[dict(
        name="rawvec", classify=classify,
        quick=dict(cases=4000, shards=4, profiles=["debug"], extra=["--no-faults"]),
        thorough=dict(cases=48000, shards=16, profiles=["debug"], extra=["--no-faults"]),
    )],
    model_targets=["Extract/Extract.vo"],
    rule="state-aware random histories (12-61 steps) on real BytesVec / ZeroCopyVec / EagerVec<BytesVec> over usize -> "
         "u64,u8,u32,i64,[u8;3], retention k in 0..6 and 10; profiles C03 (no commits) / C04 (edits, commits with increasing "
         "and re-used stamps, rollback, rollback_before only from committed states) / C16 (commit-heavy) / Safe (C04 without "
         "plain rollback()) / Wild (plain writes between commits, reset_unsaved, non-increasing stamps: model level only); "
         "one case in ten is a BIG history (up to 3000 elements, pushes of 100-1000 values) so that the vector's region leaves its "
         "first reservation and is relocated by rawdb; after every step spec level (len, collect_holed, holes, stamp, result) vs a plain Rust reference vector and model "
         "level (stored_len, real_stored_len, pushed, updated, prev_holes, prev_updated, region lengths, change directory "
         "listing with FNV of every record) vs the extracted Coq model; non-trivial = has edits, a commit and a rollback; "
         "distinct = distinct input line",
    trusted_base=["bytes behind the valid region length are modelled as stale values while the region stays in its first "
                  "4096-byte reservation; in disciplined histories no read goes there (RvRefine.Inv_no_stale, also after a rollback "
                  "made the vector longer than the region: since the repair of write() that state is written out like any other)"],
    assumptions=["the abstract rawdb region interface of Vec/RegionSpec.v (refinement by the allocator is C01's obligation)",
                 "C04 quantifies over disciplined histories (RvFindings.op_disciplined): plain write()/flush() only when nothing "
                 "changed since the last commit; rollbacks start from a committed state"],
)

ENGINES = [
    dict(name="rawvec", path="harness/src/eng_rawvec.rs + ocaml/eng_rawvec.ml", serves_properties=["C03", "C04", "C16"],
         kind_free_text="differential: real raw vectors vs extracted Coq model after every step, plus an in-harness reference "
                        "vector (spec-level oracle) and a fault stream on the real change directory"),
]

TEXT = dict(
    design_ref="DESIGN.md section 4, C04",
    technique="Coq proof (unbounded induction with ghost levels) of commit/rollback + bounded exhaustive theorem + extracted-model differential",
    text=("Proof (Props/C04.v, Vec/RvChain.v; all element types, retention k > 0, unbounded histories): C04_rollback_step, "
          "C04_chain, C04_rollback_before, C04_continuation — every strict history (edits, commits with increasing stamps "
          "whose record fits 64 bits, rollback / rollback_before from committed states, including rollbacks of truncating "
          "commits that leave the vector longer than its region) "
          "agrees with the reference vector after every step; the invariant K (baseline + chain of valid records + "
          "directory) is re-established by every step.  The former known class (findings 3/4: rollback of a truncating commit, "
          "then push / delete of a restored slot, then write() -> WriteOutOfBounds with data loss) is repaired in write() "
          "(the region is first extended to stored_len); its witnesses now agree (C04_rollback_of_truncation_histories_agree) "
          "and no statement excludes the class any more.  C04_continuation_partial (bounded: 177 156 histories, length <= 5, "
          "retention 1, 2, every disciplined history) additionally covers plain write/flush/re-import/reset between commits, which the strict class "
          "excludes.  The model is validated against the real vectors after every step."),
    note=("Trusted: Coq kernel; extraction and the OCaml driver; the Rust harness.  The Rust code is modelled, not verified."),
)


# compressed half (engine compvec in rollback mode; Props/C04comp.v, Props/C16comp.v)
import importlib.util as _u, os as _os
_spec = _u.spec_from_file_location("c04comp", _os.path.join(_os.path.dirname(_os.path.dirname(_os.path.abspath(__file__))), "propdefs_C04_comp_fragment.py"))
_comp = _u.module_from_spec(_spec); _spec.loader.exec_module(_comp)
PROP["engines"] = PROP["engines"] + _comp.PROP["engines"]
PROP["rule"] = PROP["rule"] + " || compressed: " + _comp.PROP["rule"]
PROP["trusted_base"] = PROP.get("trusted_base", []) + _comp.PROP["trusted_base"]
PROP["assumptions"] = PROP.get("assumptions", []) + _comp.PROP["assumptions"]
