"""C17 — on-disk codecs round-trip every valid value and reject garbage without panicking."""


def classify(inp, obs, tags):
    kind = inp.split(" ", 1)[0]
    o = obs[0] if obs else ""
    cls = " ".join(o.split()[:2]) if o.startswith("err") else o.split(" ", 1)[0]
    trivial = o in ("err InvalidMetadataSize", "err WrongLength", "err BadWidth")
    return [f"{kind}:{cls}"], not trivial


PROP = dict(
    engines=[dict(
        name="codec", classify=classify,
        quick=dict(cases=24000, shards=4, profiles=["debug", "release"]),
        thorough=dict(cases=2000000, shards=16, profiles=["debug", "release"]),
    )],
    rule="inputs: 12 codec case kinds in rotation (metadata slots 60% valid / 40% boundary+malformed, encoders at and "
         "around the limits, headers, pages, numeric widths 1-16, byte arrays, regions files with mixed valid/invalid "
         "slots), all from one SplitMix64 state; non-trivial = not rejected by the very first length check; distinct = "
         "distinct input string",
    trusted_base=["UTF-8 validity is modelled by a hand-written DFA (Codec/Utf8.v), validated against String::from_utf8 differentially"],
    assumptions=["change-record codecs are covered under C16 (same engine family)"],
)

ENGINES = [
    dict(name="codec", path="harness/src/eng_codec.rs + ocaml/eng_codec.ml", serves_properties=["C17"],
         kind_free_text="differential: real decoders/encoders vs extracted Coq codecs, plus implementation-only round-trip/validity oracles"),
]

TEXT = dict(
    design_ref="DESIGN.md section 4, C17",
    technique="Coq proof of codec round-trip/totality + extracted-model differential",
    text=("Proof: Coq theorems C17_* (Props/C17.v) state, for ALL byte strings and ALL field values, that the "
          "region-metadata, vector-header, Format, page-index and numeric/byte-array codecs round-trip every valid "
          "value, that decoding returns an error or a value satisfying the validity rules and never panics, that the "
          "id allocation is bounded by the input, and that Regions::fill decodes each slot from its own bytes only "
          "(invalid slots skipped). The models use offsets/limits regenerated from the source on every run and are "
          "validated against the real decoders differentially (debug and release builds)."),
    note=("Trusted: Coq kernel; the translator gen_consts.py; extraction (ExtrOcamlBasic) and the OCaml driver; the "
          "Rust harness. The Rust code itself is modelled, not verified: the tie is the regenerated constants plus "
          "differential agreement on generated inputs (bounded sample). Rollback change-record codecs are handled under C16."),
)
