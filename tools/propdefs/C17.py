"""C17 — on-disk codecs round-trip every valid value and reject garbage without panicking."""


def classify(inp, obs, tags):
    kind = inp.split(" ", 1)[0]
    o = obs[0] if obs else ""
    cls = " ".join(o.split()[:2]) if o.startswith("err") else o.split(" ", 1)[0]
    trivial = o in ("err InvalidMetadataSize", "err WrongLength", "err BadWidth")
    return [f"{kind}:{cls}"], not trivial


def classify_faults(inp, obs, tags):
    ops = [t for t in inp.split() if "=" not in t]
    out = [t for t in tags if t.startswith(("decode-alloc:", "xo:"))]
    out += ["fault:" + o.split(":")[0] for o in ops if o[0] == "x"]
    return out, any(o[0] == "x" for o in ops)


def classify_compfaults(inp, obs, tags):
    ops = inp.split(" ")[4:]
    out = [t for t in tags if t.startswith(("decode-alloc:", "xo:", "fault:", "faulted-"))]
    return sorted(set(out)), any(o[0] == "x" for o in ops)


PROP = dict(
    # cross-check of the extraction itself: generated (valid and damaged) byte strings decoded by the extracted OCaml
    # model AND inside Coq (vm_compute on Codec/CodecDigest.cd_*); the digests must be equal
    always_cmds=[["tools/x_crosscheck.py", "codec", "--cases", "60"]],
    thorough_cmds=[["tools/x_crosscheck.py", "codec", "--cases", "400", "--seed", "7"]],
    engines=[dict(
        name="codec", classify=classify,
        quick=dict(cases=24000, shards=4, profiles=["debug", "release"]),
        thorough=dict(cases=480000, shards=16, profiles=["debug", "release"]),
    ), dict(
        # rollback change records: the decoders are driven through the real rollback on damaged records
        name="rawvec", classify=classify_faults,
        quick=dict(cases=1400, shards=4, profiles=["debug"], extra=["--faults"]),
        thorough=dict(cases=24000, shards=16, profiles=["debug"], extra=["--faults"]),
    ), dict(
        # change records of compressed vectors: the same through PcoVec / LZ4Vec / ZstdVec (its V keys carry the C17: prefix)
        name="compvec", classify=classify_compfaults, extra=["--faults"],
        quick=dict(cases=800, shards=4, profiles=["debug"]),
        thorough=dict(cases=16000, shards=16, profiles=["debug"]),
    )],
    rule="inputs: 12 codec case kinds in rotation (metadata slots 60% valid / 40% boundary+malformed, encoders at and "
         "around the limits, headers, pages, numeric widths 1-16, byte arrays, regions files with mixed valid/invalid "
         "slots), all from one SplitMix64 state; non-trivial = not rejected by the very first length check; distinct = "
         "distinct input string.  Change records (engine rawvec --faults): a generated commit history on a real raw vector, then "
         "ONE fault on the record rollback would decode (deleted, truncated at every byte offset, each of the 7 length fields "
         "overwritten with 0, 1, 2^32, 2^63, 2^64-1, value+-1), then rollback / rollback_before; oracle: no panic, and the largest "
         "single allocation request during the decode (recorded by the harness's global allocator) stays within 8x the size of "
         "change files + region + 1 MiB.  Compressed change records (engine compvec --faults): the same fault families on real "
         "PcoVec/LZ4Vec/ZstdVec (retention 1..4; delete, truncation at every byte offset of records <= 512 bytes, the 6 u64 fields "
         "stamp / prev_stored_len / stored_len / truncated / prev_pushed / pushed counts overwritten with 0, 1, 2^32, 2^63, 2^64-1, "
         "value+-1), then rollback / rollback_before, then push + write; oracles decode-of-damaged-change-record-panics-comp and "
         "decode-of-damaged-change-record-allocates-beyond-input-comp (largest single request within 8x (change files + data region "
         "+ page-index region) + 1 MiB), every step compared with the extracted parser model",
    trusted_base=["UTF-8 validity is modelled by a hand-written DFA (Codec/Utf8.v), validated against String::from_utf8 differentially"],
    assumptions=["the in-memory size of a decoded element equals its on-disk width (true of the numeric and byte-array element types "
                 "the change-record theorems are instantiated with)"],
)

ENGINES = [
    dict(name="rawvec", path="harness/src/eng_rawvec.rs + ocaml/eng_rawvec.ml", serves_properties=["C03", "C04", "C16", "C17"],
         kind_free_text="fault stream on the real change directory: damaged change records decoded by the real rollback; "
                        "model-level comparison with the extracted parser, panic and allocation-size oracles"),
    dict(name="compvec", path="harness/src/eng_compvec.rs + ocaml/eng_compvec.ml", serves_properties=["C07", "C03", "C04", "C16", "C17"],
         kind_free_text="with --faults: damaged change records of compressed vectors decoded by the real rollback; model-level comparison "
                        "with the extracted parser (CvModel.parse_change), panic and allocation-size oracles"),
    dict(name="codec", path="harness/src/eng_codec.rs + ocaml/eng_codec.ml", serves_properties=["C17"],
         kind_free_text="differential: real decoders/encoders vs extracted Coq codecs, plus implementation-only round-trip/validity oracles"),
]

TEXT = dict(
    design_ref="DESIGN.md section 4, C17",
    technique="Coq proof of codec round-trip/totality + extracted-model differential",
    text=("Proof: Coq theorems C17_* (Props/C17.v) state, for ALL byte strings and ALL field values, that the "
          "region-metadata, vector-header, Format, page-index and numeric/byte-array codecs round-trip every valid "
          "value, that decoding returns an error or a value satisfying the validity rules and never panics, that the "
          "id allocation is bounded by the input, and that Regions::fill decodes each slot from its own bytes only "
          "(invalid slots skipped). Rollback change records (Props/C17change.v): the raw record codec round-trips every "
          "valid record, rejects EVERY truncation and EVERY extension of ANY accepted input, never panics, and the one "
          "count-sized read (ChangeCursor::read_values) never requests more memory than the bytes remaining in its input "
          "(C17_change_values_alloc) — proved about the ORDER OF STEPS regenerated from cursor.rs on every run "
          "(Gen/CursorOrder.v; C17_change_values_is_source ties it to the parser model), and observed on the real code by an "
          "allocation watch while damaged records are decoded. The models use offsets/limits regenerated from the source on every run and are "
          "validated against the real decoders differentially (debug and release builds)."),
    note=("Trusted: Coq kernel; the translator gen_consts.py; extraction (ExtrOcamlBasic) and the OCaml driver; the "
          "Rust harness. The Rust code itself is modelled, not verified: the tie is the regenerated constants plus "
          "differential agreement on generated inputs (bounded sample). Compressed vectors' change records (the base record without the raw tail): Props/C17compchange.v — "
          "C17_comp_change_record_roundtrip, _truncation_rejected, _extension_rejected, _total, about CvModel.parse_change, the parser the "
          "engine compvec --faults compares with the real rollback on damaged records."),
)
