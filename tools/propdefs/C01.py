"""C01 — rawdb: every region reads back exactly its own bytes, across any history."""


def classify(inp, obs, tags):
    ops = inp.split()[1:]
    kinds = sorted({o.split(":")[0] for o in ops})
    nontrivial = len(tags) >= 2 or ("place:relocate" in tags)
    return [f"op:{k}" for k in kinds] + list(tags), nontrivial


PROP = dict(
    engines=[dict(
        name="rawdb", classify=classify, shrink="ops",
        quick=dict(cases=480, shards=8, profiles=["debug"]),
        thorough=dict(cases=24000, shards=16, profiles=["debug", "release"]),
    )],
    model_targets=["Extract/Extract.vo"],
    rule="state-aware random histories (20-90 ops) over create / append / write_at / truncate_write / truncate / rename / "
         "remove (with and without a second live handle) / retain / flush / region flush / compact / reopen / set_min_len / "
         "set_min_regions, sizes from {0,1,sub-page,4095/4096/4097,straddling,multi-doubling,>1 MiB}, 15% malformed requests; "
         "after EVERY step the whole allocator state (slots, all five layout maps incl. tie-break order, file length, regions "
         "file) and sampled bytes of every region are compared with the extracted Coq model, and a plain Rust reference (one "
         "byte vector per name) is compared byte for byte with read_all(); non-trivial = the history took at least two of the "
         "placement paths create / grow-in-place / relocate; distinct = distinct history",
    trusted_base=["region byte contents in the model are functions N -> N; the differential compares them at sampled offsets, the full bytes are compared with the Rust reference"],
)

ENGINES = [
    dict(name="rawdb", path="harness/src/eng_rawdb.rs + ocaml/eng_rawdb.ml", serves_properties=["C01", "C02", "C13"],
         kind_free_text="differential on operation histories: real rawdb vs extracted Coq allocator model (full internal state after every step) + reference byte vectors + extent-invariant oracle on the real layout"),
]

TEXT = dict(
    design_ref="DESIGN.md section 4, C01",
    technique="Coq refinement proof (allocator model -> per-name byte vectors) + extracted-model differential on histories",
    text=("Proof (partial, see evidence for the theorem ledger): Coq theorems in Props/C01.v about the executable allocator "
          "model Rawdb/Alloc.v (a branch-for-branch transcription of write_with's four placement paths, create, truncate, "
          "rename, remove, retain, flush with hole promotion, compact, reopen), for ALL operation histories. The model is "
          "tied to the code by regenerated constants and by comparing its COMPLETE internal state with the real allocator "
          "after every step of generated histories, and the implementation's region bytes with independent reference "
          "vectors."),
    note=("Trusted: Coq kernel; gen_consts.py; extraction + OCaml driver; harness. The allocator is modelled, not verified: "
          "the tie is differential agreement on a bounded sample of histories. Sequential semantics only (concurrency is C10)."),
)
