"""C01 — rawdb: every region reads back exactly its own bytes, across any history."""


def classify(inp, obs, tags):
    ops = inp.split()[1:]
    kinds = sorted({o.split(":")[0] for o in ops})
    nontrivial = len(tags) >= 2 or ("place:relocate" in tags)
    return [f"op:{k}" for k in kinds] + list(tags), nontrivial


PROP = dict(
    # cross-check of the extraction itself: generated allocator histories evaluated by the extracted OCaml model AND
    # inside Coq (vm_compute on Rawdb/AllocDigest.a_trace_digest: every field of every state, every result, sampled
    # bytes); the digests must be equal.  Cheap enough for every run.
    always_cmds=[["tools/x_crosscheck.py", "rawdb", "--cases", "24"]],
    thorough_cmds=[["tools/x_crosscheck.py", "rawdb", "--cases", "120", "--seed", "7"]],
    engines=[dict(
        name="rawdb", classify=classify, shrink="ops",
        quick=dict(cases=480, shards=8, profiles=["debug"]),
        thorough=dict(cases=12000, shards=16, profiles=["debug", "release"]),
    )],
    model_targets=["Extract/Extract.vo"],
    rule="state-aware random histories (20-90 ops) over create / append / write_at / truncate_write / truncate / rename / "
         "remove (with and without a second live handle) / retain / flush / region flush / compact / reopen / set_min_len / "
         "set_min_regions, sizes from {0,1,sub-page,4095/4096/4097,straddling,multi-doubling,>1 MiB}, 15% malformed requests; "
         "after EVERY step the whole allocator state (slots, all five layout maps incl. tie-break order, file length, regions "
         "file) and sampled bytes of every region are compared with the extracted Coq model, and a plain Rust reference (one "
         "byte vector per name) is compared byte for byte with read_all(); non-trivial = the history took at least two of the "
         "placement paths create / grow-in-place / relocate; distinct = distinct history",
    trusted_base=["region byte contents in the model are functions N -> N; the differential compares them at sampled offsets, the full bytes are compared with the Rust reference"],
)

ENGINES = [
    dict(name="rawdb", path="harness/src/eng_rawdb.rs + ocaml/eng_rawdb.ml", serves_properties=["C01", "C02", "C13"],
         kind_free_text="differential on operation histories: real rawdb vs extracted Coq allocator model (full internal state after every step) + reference byte vectors + extent-invariant oracle on the real layout"),
]

TEXT = dict(
    design_ref="DESIGN.md section 4, C01",
    technique="Coq refinement proof (allocator model -> per-name byte vectors) + extracted-model differential on histories",
    text=("Proof: Props/C01.v + C01link.v (36 theorems) about the executable allocator model Rawdb/Alloc.v, a branch-for-branch "
          "transcription of create, write_with's four placement paths, truncate, rename, remove, retain, flush with hole "
          "promotion, compact, reopen. For ALL histories from the initial state: C01_refines (one run of the per-name byte-vector "
          "reference simulates the whole history, results agreeing step by step), C01_isolation (a step addressed at one region "
          "leaves every other region's bytes unchanged), C01_reopen (exactly the regions that ever changed length or were renamed "
          "survive, with identical bytes), C01_never_panics (for requests below the 1 TiB reserve limit; the assert at the limit is "
          "exhibited by a _refuted witness), and C01link_run (each region behaves as the independent byte vector the vector-layer "
          "models assume). The model's arithmetic is re-translated from the source on every run (C01_*_is_source). The model is "
          "compared with the real allocator on its COMPLETE internal state after every step of generated histories, and the real "
          "region bytes with independent reference vectors."),
    note=("Trusted: Coq kernel; gen_consts.py / gen_exprs.py; extraction + OCaml driver; harness. The allocator is modelled, not "
          "verified: the tie is the regenerated constants/expressions plus differential agreement on a bounded sample of histories. "
          "Sequential semantics only (concurrency is C10). Side condition op_fits_strong: no region approaches the 1 TiB reserve limit."),
)
