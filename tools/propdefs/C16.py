"""C16 — vecdb: rollback is bounded by retention and refuses rather than guesses (raw vectors)."""


def classify(inp, obs, tags):
    toks = inp.split()
    ops = [t for t in toks if "=" not in t]
    out = [t for t in tags if t.startswith(("taint:", "rbb-err", "op:rollback", "op:fault"))]
    out += [t for t in toks if t.startswith("k=")]
    faults = [o.split(":")[0] for o in ops if o[0] == "x"]
    out += ["fault:" + f for f in faults]
    kinds = {o.split(":")[0] for o in ops}
    nontrivial = "c" in kinds and bool(kinds & {"rb", "rbb"})
    return out, nontrivial


def classify_compfaults(inp, obs, tags):
    """engine compvec --faults: <fmt> <ty> v=.. k=.. <ops>; the fault ops start with x"""
    t = inp.split(" ")
    ops = t[4:]
    out = [f"format:{t[0]}", f"type:{t[1]}", f"retention:{t[3]}"]
    out += [x for x in tags if x.startswith(("fault:", "xo:", "faulted-", "decode-alloc:", "commit:"))]
    out += ["op:" + {"b": "rollback", "bb": "rollback-before"}[o.split(":")[0]] for o in ops if o.split(":")[0] in ("b", "bb")]
    faulted = any(o[0] == "x" for o in ops)
    return sorted(set(out)), faulted and any(o.split(":")[0] in ("b", "bb") for o in ops)


PROP = dict(
    engines=[
        dict(name="rawvec", classify=classify,
             quick=dict(cases=2400, shards=4, profiles=["debug"], extra=["--faults"]),
             thorough=dict(cases=20000, shards=16, profiles=["debug"], extra=["--faults"])),
        dict(name="rawvec", classify=classify,
             quick=dict(cases=2000, shards=4, profiles=["debug"], extra=["--no-faults"]),
             thorough=dict(cases=24000, shards=16, profiles=["debug"], extra=["--no-faults"])),
    ],
    model_targets=["Extract/Extract.vo"],
    rule="fault stream on the REAL change directory: a generated commit history (retention 1..10), then ONE fault on the "
         "record rollback would read — delete it, truncate it at EVERY byte offset (exhaustive for records <= 512 bytes, 64 "
         "sampled offsets otherwise), overwrite each of the 7 length fields with 0, 1, 2^32, 2^63, 2^64-1, value+1, value-1 — "
         "then rollback or rollback_before, then push + write; observed: result, contents, directory listing; oracle: a "
         "refused single rollback changes nothing, no state outside the committed snapshots appears, no panic.  Second "
         "stream: the C04 histories with retention 0..6/10 exceeding the retention.  non-trivial = has a commit and a rollback",
    trusted_base=[],
    assumptions=["records altered so that they stay structurally consistent cannot be told from genuine ones by any parser "
                 "without a checksum: such cases are reported (key rollback-of-damaged-record-accepted), not assumed away"],
)

ENGINES = [
    dict(name="rawvec", path="harness/src/eng_rawvec.rs + ocaml/eng_rawvec.ml", serves_properties=["C03", "C04", "C16"],
         kind_free_text="differential: real raw vectors vs extracted Coq model after every step, plus an in-harness reference "
                        "vector (spec-level oracle) and a fault stream on the real change directory"),
]

TEXT = dict(
    design_ref="DESIGN.md section 4, C16",
    technique="Coq proof of the change-record parser, directory pruning, refusal paths and retention count + fault enumeration on the real directory",
    text=("Proof (all byte strings, records, states, element types): C16_record_roundtrip, C16_prefix, "
          "C16_truncation_of_any_accepted_input, C16_trailing_bytes_rejected, C16_lenfields (an accepted input is consumed "
          "exactly), C16_parser_total, C16_dir (at most k records, nothing above the stamp committed from: abandoned futures "
          "are gone), C16_fail_single (EVERY refused rollback leaves the whole state unchanged), C16_fail_before, "
          "C16_rollback_before_ok, C16_missing_record_refused, C16_truncated_record_refused, never-panics, "
          "C16_retention_zero_disables_recording, and UNBOUNDED C16_count: after any strict run of commits with retention "
          "k > 0 exactly min(k, commits) successive rollbacks succeed, each landing on a retained committed snapshot "
          "(C04_chain), and the next is refused with the vector unchanged."),
    note=("Trusted: Coq kernel; extraction and the OCaml driver; the Rust harness.  The Rust code is modelled, not verified.  "
          "Known finding: a record altered into another structurally consistent record (prev_stored_len 0/1/+-1) is applied (no checksum)."),
)


# compressed half (engine compvec in rollback mode; Props/C04comp.v, Props/C16comp.v)
import importlib.util as _u, os as _os
_spec = _u.spec_from_file_location("c04comp", _os.path.join(_os.path.dirname(_os.path.dirname(_os.path.abspath(__file__))), "propdefs_C04_comp_fragment.py"))
_comp = _u.module_from_spec(_spec); _spec.loader.exec_module(_comp)
PROP["engines"] = PROP["engines"] + _comp.PROP["engines"] + [dict(
    # fault stream on the change directory of real compressed vectors (Props/C16compfault.v, Vec/CvFault.v)
    name="compvec", classify=classify_compfaults, extra=["--faults"],
    quick=dict(cases=800, shards=4, profiles=["debug"]),
    thorough=dict(cases=16000, shards=16, profiles=["debug"]),
)]
PROP["extra_targets"] = PROP.get("extra_targets", []) + _comp.PROP.get("extra_targets", []) + ["Vec/CvFaultProofs.vo"]
PROP["rule"] = PROP["rule"] + " || compressed: " + _comp.PROP["rule"] + (
    " || compressed fault stream (engine compvec --faults): families of single-fault cases on REAL PcoVec/LZ4Vec/ZstdVec "
    "(+EagerVec wrappers; u64, u32, u16, i64, f64, u128, [u8;3]): a generated commit history with retention 1..4 (1..k+2 commits, "
    "pushes / truncations in between, re-imports; the last commit append-only / truncating / truncate-then-push / no-change / made "
    "after the rollback of a truncating commit so that prev_pushed is non-empty), ending right after a commit; then ONE fault on "
    "the newest change file: deleted, truncated at EVERY byte offset (records <= 512 bytes; 64 sampled offsets otherwise; an evenly "
    "spaced subset when the case budget of the run cannot hold them all), each of the 6 u64 fields located by parsing the record as "
    "serialize_changes lays it out (stamp, prev_stored_len, stored_len, truncated count, prev_pushed count, pushed count) overwritten "
    "with 0, 1, 2^32, 2^63, 2^64-1, value+1, value-1; then rollback() (2/3) or rollback_before(s) (1/3); then push + write. Every "
    "step is compared with the extracted model (Vec/CvFault.v: the three faults act on the model's change directory bytes). "
    "Implementation-only oracles: a refused rollback leaves contents, length and stamp unchanged (failed-rollback-changed-vector); "
    "an accepted damaged record must leave a state (contents + stamp) that was committed in this history "
    "(rollback-of-damaged-record-accepted-comp; a stored length above the on-disk length or above 2^24 values is reported as "
    "rollback-of-damaged-record-sets-length-beyond-data-comp and the vector is not read any more); push + write after a refused "
    "rollback succeed (vector-unusable-after-refused-rollback-comp); no panic. non-trivial = a fault followed by a rollback")
TEXT["text"] = TEXT["text"] + (
    "  Compressed change records under faults (Props/C16compfault.v, all byte strings / element types): "
    "C16_comp_record_truncation_rejected (every strict prefix of ANY accepted input is refused), "
    "C16_comp_record_extension_rejected, C16_comp_record_parser_total, C16_comp_damaged_record_verdict (for a record with ANY "
    "stamp / prev_stored_len / stored_len field: Underflow iff prev_stored_len < truncated count, IndexTooHigh iff the vector's "
    "stored_len < prev_stored_len - truncated count, applied otherwise; refusals change nothing), "
    "C16_comp_append_only_prev_stored_len_refused / _accepted, C16_comp_rollback_of_overwritten_prev_stored_len_refused "
    "(the fault op + rollback() end to end on the model), and C16_comp_damaged_refused_refuted: 'every altered record is "
    "refused' is false (no checksum) — witness replayed on the real code by the fault stream.")
TEXT["note"] = TEXT["note"] + ("  Compressed: a record altered into another structurally consistent one (stamp field: any value; "
    "prev_stored_len lowered; counts that happen to re-parse) is applied — key rollback-of-damaged-record-accepted-comp.")
ENGINES = ENGINES + [dict(name="compvec", path="harness/src/eng_compvec.rs + ocaml/eng_compvec.ml", serves_properties=["C07", "C03", "C04", "C16", "C17"],
    kind_free_text="differential: real compressed vectors vs the extracted Coq model after every step (commit / rollback histories; with "
                   "--faults: single-file faults on the real change directory, mirrored on the model's directory bytes), plus "
                   "implementation-only oracles (reference vector, committed-snapshot set, panic and allocation watch)")]
PROP["trusted_base"] = PROP.get("trusted_base", []) + _comp.PROP["trusted_base"]
PROP["assumptions"] = PROP.get("assumptions", []) + _comp.PROP["assumptions"]
