"""C16 — vecdb: rollback is bounded by retention and refuses rather than guesses (raw vectors)."""


def classify(inp, obs, tags):
    toks = inp.split()
    ops = [t for t in toks if "=" not in t]
    out = [t for t in tags if t.startswith(("taint:", "rbb-err", "op:rollback", "op:fault"))]
    out += [t for t in toks if t.startswith("k=")]
    faults = [o.split(":")[0] for o in ops if o[0] == "x"]
    out += ["fault:" + f for f in faults]
    kinds = {o.split(":")[0] for o in ops}
    nontrivial = "c" in kinds and bool(kinds & {"rb", "rbb"})
    return out, nontrivial


PROP = dict(
    engines=[
        dict(name="rawvec", classify=classify,
             quick=dict(cases=2400, shards=4, profiles=["debug"], extra=["--faults"]),
             thorough=dict(cases=64000, shards=16, profiles=["debug"], extra=["--faults"])),
        dict(name="rawvec", classify=classify,
             quick=dict(cases=2000, shards=4, profiles=["debug"], extra=["--no-faults"]),
             thorough=dict(cases=80000, shards=16, profiles=["debug"], extra=["--no-faults"])),
    ],
    model_targets=["Extract/Extract.vo"],
    rule="fault stream on the REAL change directory: a generated commit history (retention 1..10), then ONE fault on the "
         "record rollback would read — delete it, truncate it at EVERY byte offset (exhaustive for records <= 512 bytes, 64 "
         "sampled offsets otherwise), overwrite each of the 7 length fields with 0, 1, 2^32, 2^63, 2^64-1, value+1, value-1 — "
         "then rollback or rollback_before, then push + write; observed: result, contents, directory listing; oracle: a "
         "refused single rollback changes nothing, no state outside the committed snapshots appears, no panic.  Second "
         "stream: the C04 histories with retention 0..6/10 exceeding the retention.  non-trivial = has a commit and a rollback",
    trusted_base=[],
    assumptions=["records altered so that they stay structurally consistent cannot be told from genuine ones by any parser "
                 "without a checksum: such cases are reported (key rollback-of-damaged-record-accepted), not assumed away"],
)

ENGINES = [
    dict(name="rawvec", path="harness/src/eng_rawvec.rs + ocaml/eng_rawvec.ml", serves_properties=["C03", "C04", "C16"],
         kind_free_text="differential: real raw vectors vs extracted Coq model after every step, plus an in-harness reference "
                        "vector (spec-level oracle) and a fault stream on the real change directory"),
]

TEXT = dict(
    design_ref="DESIGN.md section 4, C16",
    technique="Coq proof of the change-record parser, directory pruning, refusal paths and retention count + fault enumeration on the real directory",
    text=("Proof (all byte strings, records, states, element types): C16_record_roundtrip, C16_prefix, "
          "C16_truncation_of_any_accepted_input, C16_trailing_bytes_rejected, C16_lenfields (an accepted input is consumed "
          "exactly), C16_parser_total, C16_dir (at most k records, nothing above the stamp committed from: abandoned futures "
          "are gone), C16_fail_single (EVERY refused rollback leaves the whole state unchanged), C16_fail_before, "
          "C16_rollback_before_ok, C16_missing_record_refused, C16_truncated_record_refused, never-panics, "
          "C16_retention_zero_disables_recording, and UNBOUNDED C16_count: after any strict run of commits with retention "
          "k > 0 exactly min(k, commits) successive rollbacks succeed, each landing on a retained committed snapshot "
          "(C04_chain), and the next is refused with the vector unchanged."),
    note=("Trusted: Coq kernel; extraction and the OCaml driver; the Rust harness.  The Rust code is modelled, not verified.  "
          "Known finding: a record altered into another structurally consistent record (prev_stored_len 0/1/+-1) is applied (no checksum)."),
)


# compressed half (engine compvec in rollback mode; Props/C04comp.v, Props/C16comp.v)
import importlib.util as _u, os as _os
_spec = _u.spec_from_file_location("c04comp", _os.path.join(_os.path.dirname(_os.path.dirname(_os.path.abspath(__file__))), "propdefs_C04_comp_fragment.py"))
_comp = _u.module_from_spec(_spec); _spec.loader.exec_module(_comp)
PROP["engines"] = PROP["engines"] + _comp.PROP["engines"]
PROP["rule"] = PROP["rule"] + " || compressed: " + _comp.PROP["rule"]
PROP["trusted_base"] = PROP.get("trusted_base", []) + _comp.PROP["trusted_base"]
PROP["assumptions"] = PROP.get("assumptions", []) + _comp.PROP["assumptions"]
