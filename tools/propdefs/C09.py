"""C09 — vecdb: a concurrent reader never sees a length whose elements are not there yet."""


def classify(inp, obs, tags):
    fmt = next((t[4:] for t in inp.split() if t.startswith("fmt=")), "?")
    lay = next((t[4:] for t in inp.split() if t.startswith("lay=")), "?")
    # a second vector `b` of the writer thread (items b<n> in pre= / w=)
    if any(t.startswith(("pre=", "w=")) and any(x.startswith("b") for x in t.split("=", 1)[1].replace("+", ",").split(",")) for t in inp.split()):
        lay += "+b"
    bad = any(" res=bad" in o for o in obs)
    regime = next((x for t in tags for x in t.split() if x.startswith("regime:")), "regime:?")
    return [f"{fmt}:{lay}:{regime}:{'bad-read' if bad else 'ok'}"], True


PROP = dict(
    engines=[dict(
        name="schedvec", classify=classify,
        quick=dict(cases=1440, shards=16, extra=["--shards", "16", "--por", "1", "--xmax", "14"]),
        thorough=dict(cases=6400, shards=16, extra=["--shards", "16", "--por", "0", "--xmax", "160"]),
    )],
    rule="schedules: (a) interleavings of ONE write() with TWO reader operations at pause-point granularity, enumerated "
         "from the probed stop sequences of the real code, for 14 regimes (raw: fits, in-place extension, relocation to the "
         "end / into a hole, expansion into the adjacent hole, each with and without file growth; pco/lz4: fast raw append, "
         "page-aligned start, partial-page re-encode = page overflow in place, with relocation, with file growth) and 3-4 reader "
         "operation pairs (collect_one_at, collect_range_at, fold_range_at, VecReader, cursor), plus 4 TWO-VECTOR regimes (raw from "
         "two layouts, pco, lz4) in which the writer thread owns a second vector b of the same database and the schedule is "
         "write(a) that relocates a, then write(b) that needs an extent no larger than the one a vacated (b relocates too), with "
         "1-2 reader pairs each (VecReader / fold_range_at / cursor / collect_range_at created before the relocation; compressed: "
         "collect_one_at / fold / range / cursor): for these the directed schedule 'readers up to the stop at which they hold "
         "their Reader, writer to the end of both writes, readers to the end' is always run in addition to the enumeration; "
         "plus 4 regimes of format rawn = the raw format with an element type whose Bytes form (big-endian) is NOT its memory "
         "layout, so that write() serialises value by value and the readers read value by value (fits, in-place extension, "
         "relocation to the end, relocation into a hole; the 3 raw reader pairs, which all read the tail: collect_one_at(last) + "
         "collect_range_at, fold_range_at + cursor(last), VecReader(last) + collect_one_at(first)); "
         "quick = stride sample of the enumeration reduced by commuting adjacent reader steps, thorough = up to 160 schedules per configuration without the commutation reduction "
         "(capped at 400000 per configuration); (b) random longer schedules (1-3 writes, 1-3 readers x 1-3 operations, fine stops "
         "incl. the mmap lock taps; formats raw, rawn, pco, pco, lz4 with equal weight), a quarter of them with the second vector b (created with an initial size by 1-2 pre-phase "
         "writes, written 1-2 times between / after the writes of a: its relocations, in-place extensions and file growths are "
         "ordinary writer stops); the oracle is the same in all cases (values read = values pushed to a, b's values come from "
         "another generator); non-trivial = every case (two or more threads interleaved); distinct = distinct input line",
    trusted_base=["the controller parks real threads at taps compiled under cfg(anydb_verif); steps between taps are assumed atomic",
                  "the allocator's and the compressor's answers are inputs of the step model (hints measured in a sequential dry run); "
                  "the model checks every allocator answer against its freshness guard: a's placements against a's current and "
                  "vacated extents, and b's placements against them too (one model instance per vector, each seeing the other's "
                  "placements as LWOther/KOther steps); the page-index regions' placements are not modelled"],
    assumptions=["sequential consistency inside and between steps for SharedLen Release/Acquire (premise of the theorems, regenerated)",
                 "a remap of the data file preserves the contents of the memory map"],
)

ENGINES = [
    dict(name="schedvec", path="harness/src/eng_schedvec.rs + ocaml/eng_schedvec.ml", serves_properties=["C09"],
         kind_free_text="schedule replay: a controller parks one real writer thread and real reader threads at pause points; "
                        "spec-level oracle on the values/lengths returned to the readers; model level = the extracted step model's "
                        "outcome for the same schedule"),
]

TEXT = dict(
    design_ref="DESIGN.md section 4, C09",
    technique="Coq proof on a step model (invariant over the step relation) + schedule replay on the real code",
    text=("proof on the step model; partial: hardware/compiler reorderings within a step and the kernel's mmap coherence are "
          "assumed, not exhibited. C09_raw_prefix (Props/C09.v): for the raw format, for any number of readers, batch sizes and "
          "write() calls, every completed read returns the value pushed at that index, lengths seen by one reader never decrease, "
          "no read panics and write() never fails, under SharedLen Release/Acquire. For the compressed format the faithful model "
          "REFUTES the full statement (C09_comp_prefix_refuted: write() re-encodes an overflowing partial page in place before it "
          "takes the pages lock, so a reader holding the old page entry decodes rewritten bytes; with a relocation a reader with an "
          "old region snapshot decodes the new entry at the old place); proved for every schedule: the lengths part "
          "(C09_comp_lens_partial). Writes of the same thread to OTHER vectors of the database are steps of both models "
          "(LWOther/KOther: foreign bytes land in an extent that must pass the freshness guard); C09_raw_prefix covers them, and "
          "C09_raw_other_write_frame / C09_comp_other_write_frame state the frame: such a write changes no byte of the vector's "
          "current extent nor of any extent it vacated and nothing else of its state. "
          "The schedule-replay engine reproduces both defects on the real code; with a second vector it also detects an allocator "
          "that hands a vacated, unflushed extent out again under a live reader snapshot "
          "(key reader-saw-bytes-of-another-vector-after-relocation)."),
    note=("Trusted: Coq kernel; gen_consts.py (orderings of SharedLen); extraction and the OCaml driver; the Rust harness and its "
          "controller. The Rust code is modelled, not verified."),
)
