"""C07 — compressed storage is lossless and its page index stays well-formed."""


def classify(inp, obs, tags):
    t = inp.split(" ", 2)
    out = [f"format:{t[0]}", f"type:{t[1]}"] + list(tags)
    ops = inp.split(" ")[4:]
    for o in ops:
        out.append("op:" + {"p": "push", "t": "truncate", "w": "write", "f": "flush", "s": "stamped-write", "r": "reset",
                            "i": "reimport", "o": "reopen", "b": "rollback", "bb": "rollback-before"}.get(o.split(":")[0], "other"))
    n = sum(int(o.split(".")[-1]) for o in ops if o.startswith("p:") and "." in o)
    per_page = 16384 // {"u8": 1, "u16": 2, "a3": 3, "u32": 4, "f32": 4, "u64": 8, "i64": 8, "f64": 8, "u128": 16}.get(t[1], 8)
    out.append("pushed-pages:" + ("<1" if n < per_page else "1-2" if n < 2 * per_page else "2-4" if n < 4 * per_page else ">=4"))
    for o in obs:
        r = o.split(" ", 2)[1] if " " in o else o
        if r.startswith("err") or r == "panic":
            out.append("result:" + r)
    regimes = {x for x in tags if x.startswith("regime:") and x != "regime:noop"}
    return sorted(set(out)), len(regimes) >= 2


PROP = dict(
    # thorough tier: 12 generated histories evaluated by the extracted OCaml model AND inside Coq (vm_compute on
    # Vec/CvInst.x_trace_digest); the digests must be equal (cross-check of the extraction itself)
    thorough_cmds=[["tools/cv_crosscheck.py", "--cases", "12"]],
    engines=[dict(
        name="compvec", classify=classify, extra=["--mode", "hist"],
        quick=dict(cases=480, shards=16, profiles=["debug"]),
        thorough=dict(cases=12000, shards=16, profiles=["debug", "release"]),
    )],
    extra_targets=["Vec/CvInstProofs.vo"],
    rule="histories: format in {pco,lz4,zstd} and EagerVec wrappers, element type in u8/u16/u32/u64/i64/f32/f64 (+u128,[u8;3] "
         "for lz4/zstd), 6-27 state-aware operations: pushes of 1 value ... 3 pages incl. exactly filling / one short of / "
         "overflowing the current page by one, value classes extremes / random bits / float specials (NaN payloads, +-0, "
         "subnormals, infinities) / small / constant / arithmetic; truncations into the raw page, into a compressed page, on a "
         "page boundary, to 0, inside the pushed buffer, no-op; write, flush+Database::flush, stamped write, reset (55% of "
         "histories may contain it), drop+re-import and close+reopen+re-import at any point; all from one SplitMix64 state. "
         "non-trivial = at least two different non-noop write regimes (fast raw append / partial-page re-encode / fresh pages / "
         "truncate-only) taken; distinct = distinct input line (real compressed sizes included)",
    trusted_base=[
        "pco / lz4_flex / zstd are not modelled: the compressor is a Section variable with the round-trip hypothesis "
        "(tested here on every full page written, never proved); the executable stand-in (Vec/CvInst.v) is proved to satisfy it",
        "the abstract rawdb region (Vec/CvRegion.v: write_at / truncate / truncate_write with rawdb's error rules) stands for the "
        "allocator; that rawdb refines it is C01",
    ],
    assumptions=[
        "the lengths of the real compressor's outputs enter the model as per-page hints read back from the on-disk index "
        "(`compress` takes a hint the real compressors ignore; every theorem quantifies over all hints)",
        "flush()/Database::flush() have no effect on the abstract regions (durability is C05)",
        "engine mode `hist` (retention 0); commit/rollback histories of compressed vectors run under C04/C16 (mode `rollback`)",
    ],
)

ENGINES = [
    dict(name="compvec", path="harness/src/eng_compvec.rs + ocaml/eng_compvec.ml", serves_properties=["C07", "C03"],
         kind_free_text="differential: real PcoVec/LZ4Vec/ZstdVec (+EagerVec wrappers) vs the extracted Coq model of the "
                        "compressed vector after every step (len, contents digest, stamp, stored_len, pushed, in-memory page "
                        "length, data region length, header bytes and the whole `_pages` region read through rawdb), plus two "
                        "implementation-only oracles: a reference Vec stepped alongside and the C07 page-index predicate"),
]

TEXT = dict(
    design_ref="DESIGN.md section 4, C07",
    technique="Coq proof of the page-index invariant, losslessness modulo the codec hypothesis and regime totality + extracted-model differential",
    text=("Proof: Coq theorems C07_* (Props/C07.v) about a branch-for-branch model of ReadWriteCompressedVec::write, "
          "truncate_if_needed_at, reset, import and Pages::{truncate,checked_push,flush}: for ALL histories and ALL compressor "
          "output lengths the page index in memory and on disk is a gap-free run of pages from HEADER_OFFSET with full "
          "compressed pages and at most one raw last page, the data region ends at the last page, no operation errs or "
          "panics, and collect() returns exactly the reference contents provided the compressor round-trips. The model "
          "follows the repaired early return of write() (Pages::has_changes), so reset();flush();re-import agrees with the "
          "reference. C07_lossless is proved at full strength: after every history what collect() = read_into_at(0, len) "
          "returns is exactly the reference contents (cv_collect = view, read_pages loop); other read entry points are C08. "
          "Commits at any retention are covered (the change record is serialised without error); rollbacks are C04comp."),
    note=("Trusted: Coq kernel; gen_consts.py; extraction + OCaml driver; the Rust harness. The compressors are tested, not "
          "verified. The Rust code is modelled, not verified: the tie is regenerated constants plus differential agreement "
          "(bounded sample) on the model's internal state after every step."),
)
