"""C11 — no interleaving of library calls from different threads can deadlock."""


def classify(inp, obs, tags):
    kind = inp.split(" ", 1)[0]
    o = obs[0] if obs else ""
    out = [f"{kind}:{o}"] + [t for t in tags if not t.startswith("cycle:")]
    if kind == "prog":
        name = inp.split()[1]
        out.append("op:" + ".".join(name.split(".")[:2]))
    return out, True


PROP = dict(
    engines=[dict(
        name="locks", classify=classify,
        quick=dict(cases=100, shards=1, profiles=["debug"]),
        thorough=dict(cases=6000, shards=1, profiles=["debug"]),
    )],
    exhaustive=True,
    rule="inputs: (1) one `prog` case per recorded scenario = public operation x allocator path, driven single-threaded "
         "with the lock tap installed (rawdb: create_region_if_needed exists/hole/end with and without file growth; "
         "write fitting/extending last/expanding into adjacent hole/relocating into hole/relocating to end with and "
         "without growth; write_at, truncate, truncate_write, rename, remove, retain_regions, Database::flush "
         "dirty/clean/pending, Region::flush dirty/clean/meta-only, compact with and without punches, set_min_len, "
         "set_min_regions, Reader, batch_write_each, run_bg, sync_bg_tasks, bg_sleep, compact_deferred; vecdb: BytesVec "
         "and PcoVec push/write/flush/truncate/reset/stamped_write_with_changes/rollback/import, reads through "
         "collect/iterators/read-only clones/CachedVec, both compressed sources, EagerVec compute with Exit); "
         "(2) `combo` cases: every pair and every triple of distinct programs, under every way of sharing objects "
         "between the threads (instances are canonical per program: threads of one group work on the same "
         "regions/vectors, different groups on disjoint ones), whose lock-order graphs close a cycle (all of them, "
         "not a sample: the search is exhaustive over the recorded programs), plus a sample of cycle-free pairs for "
         "the Coq-side bounded search; (3) one `replay` per deadlock class on real threads; (4) one `regress` per "
         "repaired deadlock: the threads are moved to the positions of the former cycle and must all finish. "
         "non-trivial = every case; distinct = distinct input line",
    trusted_base=[
        "the lock tap and the held-lock probes (`verif_lock_state`, `vecdb::verif_locks`): every lock accessor reports just before acquiring; an untapped acquisition that is held at a later tapped one is detected (V line), one that is never held across another acquisition cannot form a cycle",
        "parking_lot's RwLock is modelled by its documented policy only: writer-preferring (a waiting writer refuses new readers), FIFO queue",
        "tools/gen_lockseqs.py: translator from `harness locks --dump` to coq/Gen/LockSeqs.v",
        "the replay controller (parks real threads at tap events; blocked = inside an acquisition with no report from any participant for max(150 ms, 10x the median report gap of the run); deadlock = that for all participants for at least 2 s; a replay that diverges is retried with 4x and 16x longer waits before it is reported)",
    ],
    assumptions=[
        "completeness of P (every public operation x every lock-relevant path has a recorded program) is validated by tap coverage, not proved",
        "arguments of log::debug!/trace! calls are not evaluated (no logger installed): the `self.meta().id()` reads inside them are not part of P",
        "one writer per object at a time: `&mut self` operations of a vector, and content-changing operations on one rawdb region (its write path is made for concurrent work on DISTINCT regions), exclude each other; modelled by a gate lock `vecmut` per object that the programs hold around such operations (outermost rank; not visible to the tap)",
        "a Reader or iterator kept alive across another call on the same thread is documented misuse and excluded (each program contains one operation)",
        "Condvar::wait_for in bg_sleep is modelled as holding bg_sync (its wait is bounded by the timeout and re-acquires with nothing else held)",
    ],
)

ENGINES = [
    dict(name="locks", path="harness/src/eng_locks.rs + eng_lockscen.rs + eng_lockvec.rs + ocaml/eng_locks.ml", serves_properties=["C11"],
         kind_free_text="lock-tap recorder (operation x path -> lock program), exhaustive model deadlock search over pairs/triples "
                        "re-checked by the extracted Coq semantics, and real-thread replay of every deadlock class through a "
                        "controller that parks threads at tap events"),
]

TEXT = dict(
    design_ref="DESIGN.md section 4, C11; appendix A",
    technique="Coq proof of the rank theorem for writer-preferring RW locks + tap-generated instance + model search + real-thread replay",
    text=("Proof: Conc/RwLock.v models writer-preferring read-write locks (class, instance), thread programs Acq/Rel/Join, "
          "an unordered and a FIFO writer queue; RankTheorem / RankTheoremFifo (Props/C11.v: C11_rank_theorem*) state that if "
          "every program of a set P is rank-monotone (each acquisition while all held locks have strictly smaller rank, rank a "
          "function of the lock class; balanced; joins with nothing held) then for ANY number of threads running ANY mix of "
          "programs from P under ANY schedule every reachable state with an unfinished thread has an enabled step. The "
          "instance: P and the ranks are regenerated on every run from the lock tap (harness drives every public operation "
          "through every allocator path) and the documented order layout<regions<mmap<file<meta<dirty_bounds; "
          "C11_instance is checked by vm_compute. On the current tree the full instance is REFUTED (C11_full_refuted, "
          "C11_known_b/c/d_refuted: reachable deadlocked states of the model) and every deadlock class of the model is "
          "replayed on real threads; C11_partial holds for all programs outside the known class (rawdb locks acquired "
          "under the pages lock by compressed write()). The repaired class (file acquired under meta in Region::flush) "
          "is kept as a regression replay that must run to completion. The completeness of P is validated (tap coverage of operations x paths), not proved."),
    note=("Trusted: Coq kernel; gen_lockseqs.py; the lock tap and probes; extraction and the OCaml driver; the replay "
          "controller. parking_lot is modelled by its documented policy. The Rust code is not verified directly: the tie "
          "is the regenerated lock programs plus the real-thread replays."),
)
