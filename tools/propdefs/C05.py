"""C05 — rawdb: a crash never damages untouched flushed regions or the file layout."""


def classify(inp, obs, tags):
    n_img = next((int(t.split(":")[1]) for t in tags if t.startswith("images:")), 0)
    ops = inp.split(" | ")[0].split()[1:]
    kinds = sorted({o.split(":")[0] for o in ops})
    return [f"op:{k}" for k in kinds] + (["imaged"] if n_img > 0 else []), n_img > 0


PROP = dict(
    engines=[dict(
        name="crash", classify=classify, shrink="ops",
        quick=dict(cases=160, shards=8, profiles=["debug"], extra=["--images", "500"]),
        thorough=dict(cases=4000, shards=16, profiles=["debug"], extra=["--images", "3000"]),
    )],
    rule="operation histories (10-40 ops, sizes <= 30000 bytes) run on the real database with the durability tap on; the "
         "event log (every mmap write with the resulting page contents, set_len, fdatasync, punch) is replayed to reconstruct, "
         "at every crash point after the first flush, the images the disk may hold: OS mode = each dirty page any version since "
         "its file's last sync (metadata pages exhaustively over durable/latest up to 6 pages + random version picks; data pages "
         "all-durable / all-latest / random), LIB mode = any subset of the dirty pages inside each fdatasync; every image is "
         "materialised as real files, opened with the real Database::open and checked: opens, extents disjoint and inside the "
         "file, every region untouched since the last flush has its flushed bytes (OS), every region not overwritten in place is "
         "as at the last completed sync or as when the interrupted one began (LIB). The abstract trace is also decided by the "
         "extracted Coq monitor for ALL crash points and choices. non-trivial = at least one image was materialised; distinct = "
         "distinct history",
    trusted_base=["the fault model of the property (4 KiB page writes atomic, file length durable in order) is assumed, not exhibited",
                  "the tap reports every durability event (MmapWrite/SetLen/SyncData/Punch call sites listed in MANIFEST hooks)"],
    assumptions=["kernel write-back and fdatasync behave as the property's fault model says"],
)

ENGINES = [
    dict(name="crash", path="harness/src/eng_crash.rs + ocaml/eng_crash.ml", serves_properties=["C05", "C12"],
         kind_free_text="fault enumeration: crash images reconstructed from the tapped event log, opened with the real Database::open; plus the extracted Coq crash monitor on the abstract trace"),
]

TEXT = dict(
    design_ref="DESIGN.md section 4, C05",
    technique="Coq-proved crash monitor over durability traces (all crash points, all page subsets per trace) + materialised crash images opened by the real code",
    text=("Proof: Rawdb/Crash.v defines the durability-trace alphabet, the crash images (OS mode: any page any version since the last "
          "sync of its file; library-sync mode) and a decidable monitor; Props/C05.v (19 theorems, all full) proves the monitor "
          "SOUND: for a trace it accepts, at EVERY crash point and for EVERY choice of page versions the recovered regions are valid, "
          "pairwise disjoint and inside the file, Alloc.reopen does not panic on the image, every region untouched since the last "
          "completed flush has exactly its flushed metadata and bytes (C05_os = the full statement), and in library-sync mode a "
          "region not overwritten in place is as at the last completed sync pair or as when the interrupted one began, never a "
          "mixture (C05_lib). The extracted monitor decides every trace the instrumented implementation produces; crash images are "
          "also materialised as real files and opened with the real Database::open. Rawdb/AllocEvents.v gives the allocator MODEL its own "
          "durability trace (compared token by token with the real trace of every generated history), and "
          "C05_model_disciplined / C05_all_histories (both FULL) prove that EVERY history of the allocator model — create, the "
          "write family through all five placement paths, truncate, rename, remove, retain, handle drop, set_min_len, "
          "Region::flush, Database::flush on all three paths, compact with any subset of punches, in every outcome including "
          "refusals — produces a trace the monitor accepts, hence is crash-safe at every crash point for every choice of page "
          "versions: the property for all histories of the model, not per observed trace."),
    note=("Trusted: Coq kernel; the tap call sites; the harness's reconstruction of page versions; the property's own fault model "
          "(atomic 4 KiB pages, ordered file length). The allocator is modelled, not verified: the tie is the model's trace compared token by token with the "
          "real code's tap trace on generated histories. The kernel's actual write-back is assumed, not exhibited."),
)
