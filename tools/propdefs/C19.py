"""C19 — computed columns are recomputed exactly when input versions change."""


def classify(inp, obs, tags):
    toks = inp.split()
    kv = dict(t.split("=", 1) for t in toks if "=" in t)
    nver = sum(1 for t in toks if t[0] in "VN" and "=" not in t)
    out = [f"method:{kv.get('m')}", f"format:{kv.get('f')}"] + [f"path:{t}" for t in tags]
    nontrivial = nver >= 1 and len(set(tags) & {"version-change-nonempty", "reimport", "truncating-call", "own-version-change", "redundant-call"}) >= 2
    return out, nontrivial


PROP = dict(
    engines=[dict(
        name="eager", classify=classify, extra=["--c19"],
        quick=dict(cases=4320, shards=4, profiles=["debug"]),
        thorough=dict(cases=64000, shards=16, profiles=["debug", "release"]),
    )],
    rule="as C06 but with source-version changes in 40% of the rounds, re-import after 30% and own-version change after 8% of "
         "the calls; closures of compute_to/range/transform/transform2-4 log every index they are called with; 10% of the cases begin with results "
         "that exist only in the pushed buffer (stored_len == 0) — values pushed by hand (`hp:<k>`) or the prefix left by a user "
         "closure that fails at index j before the write (`C<max_from>:<cap>:<j>`), on a fresh vector or after a truncation to 0 — "
         "followed by a version change (2/3) or not (1/3) and a call with max_from > 0; non-trivial = "
         "at least one version op and two of {version change on a non-empty vector, re-import, truncating call, own-version "
         "change, redundant call}; distinct = distinct input string",
    trusted_base=["the ghost tags (version, call serial) exist only in the model; on the implementation the evaluated indices are "
                  "observed through the logging closures of 6 methods and, for all methods, through collect() before/after"],
    assumptions=["the combined version is vec_version + sum of dependency versions (u32, no overflow); two different version "
                 "vectors with the same sum are the same combined version"],
)

ENGINES = [
    dict(name="eager", path="harness/src/eng_eager.rs + ocaml/eng_eager.ml", serves_properties=["C06", "C19"],
         kind_free_text="random histories on real EagerVec<BytesVec>/EagerVec<PcoVec> over real stored sources; "
                        "implementation-only oracles and differential against the extracted Coq driver + families"),
]

TEXT = dict(
    design_ref="DESIGN.md section 4, C19",
    technique="Coq proof over the compute driver with ghost version/serial tags + extracted-model differential",
    text=("Proof: C19_no_mix (raw and compressed formats: after ANY history — compute calls incl. user closures failing part-way, hand pushes, writes, re-imports, own-version changes — every element in memory and on disk carries the recorded "
          "computed version), C19_discard / C19_discard_unwritten (for ANY state of the vector, including results that exist only unwritten in the pushed buffer: version differs => every element of the result was evaluated by this call under the presented "
          "version, which is recorded), C19_no_recompute (version equal => the elements below min(max_from, length) are the same "
          "tagged elements), C19_persist (the recorded version survives write and flush + re-import)."),
    note="Trusted: Coq kernel; extraction + OCaml driver; the Rust harness; the driver model is tied to the code differentially.",
)
