"""C06 — incrementally maintained computed columns equal a from-scratch run."""


def classify(inp, obs, tags):
    toks = inp.split()
    kv = dict(t.split("=", 1) for t in toks if "=" in t)
    ncalls = sum(1 for t in toks if t[0] == "C" and "=" not in t)
    out = [f"method:{kv.get('m')}", f"format:{kv.get('f')}"] + [f"path:{t}" for t in tags]
    caps = {t.split(":")[1] for t in toks if t[0] == "C" and "=" not in t}
    out += [f"cap:{c if c != '0' else 'inf'}" for c in caps]
    nontrivial = ncalls >= 2 and len(set(tags) & {"multi-batch", "truncating-call", "reimport", "redundant-call"}) >= 2
    return out, nontrivial


PROP = dict(
    engines=[dict(
        name="eager", classify=classify,
        quick=dict(cases=4320, shards=4, profiles=["debug", "release"]),
        thorough=dict(cases=64000, shards=16, profiles=["debug", "release"]),
    )],
    rule="inputs: the 42 modelled integer compute_* methods in rotation (F1-F7), raw (BytesVec) and compressed (PcoVec) outputs and "
         "sources, 2-7 rounds per history of: truncate sources (35%), grow sources (85%), change a source version (12%), "
         "1-3 compute calls with cap in {1,2,3,7,64,inf} elements (first_per_index: inf only, a finite cap can loop forever) and "
         "max_from = first changed index / below it / 0 / (15% of histories, debug builds) above it, write() (20%), hand-pushed values and user closures failing before the write (10% of the cases, see C19), "
         "flush+drop+re-import (20%), own-version change (2%); window parameters from {0,1,2,3,5,8,13,1000,usize::MAX}; F7 sources "
         "are generated jointly (consistent group layout, non-decreasing keys / item->group maps) and the first changed index of "
         "the five from_indexes/indirect methods is the first index at which the from-scratch outputs of the previous and the "
         "current sources differ; 5% of the cases use the LARGE profile (half of them on the Cursor / chunked-read methods): sources of 4090-9000 elements "
         "described by generated segments, window starts / group boundaries jumping by 2..20 across multiples of 4096, windows "
         "> 4096, resume points, truncation points and batch caps within +-8 of 4096/8192; all from one SplitMix64 state; non-trivial = at least two calls and at least two of "
         "{multi-batch call, truncating call, re-import, redundant call}; distinct = distinct input string",
    trusted_base=["compute_max/min with window 0: resume_ok proved for window >= 1 only (window 0 rebuilds an empty deque and behaves like "
                  "window 1): validated differentially",
                  "compute_first_per_index has its own resume logic; it is modelled call by call (EFamilies.fpi_call) and compared "
                  "differentially; the property is refuted for it (two classes, see findings)"],
    assumptions=["u64/usize arithmetic inside the closures does not overflow (generator keeps values < 2^20)",
                 "documented preconditions are taken as domains of the theorems and of the generator: window-start vectors are "
                 "non-decreasing with starts[i] <= i (rolling_* / lookback), keys of indirect_sequential are non-decreasing and in "
                 "range, sum_from_indexes sees complete groups with first[g+1] = first[g] + count[g]",
                 "re-import means flush() + drop + forced_import of the same name (a drop without flush is not a history step)",
                 "first_per_index: max_from is an item position; the oracle applies when the restart point min(last stored value, "
                 "max_from) is the first item of a group, not above the first changed item, and a truncation is followed by regrowth"],
)

ENGINES = [
    dict(name="eager", path="harness/src/eng_eager.rs + ocaml/eng_eager.ml", serves_properties=["C06", "C19"],
         kind_free_text="random histories on real EagerVec<BytesVec>/EagerVec<PcoVec> over real stored sources; "
                        "implementation-only oracles (incremental vs one-shot run of the same real method on a fresh vector; "
                        "evaluated-index log vs version change) and differential against the extracted Coq driver + families"),
]

TEXT = dict(
    design_ref="DESIGN.md section 4, C06",
    technique="Coq proof of the compute driver (generic theorem over resume_ok/causal methods) + per-family resume_ok proofs + extracted-model differential",
    text=("Proof: C06_driver (Props/C06.v) states for ALL histories (successive sources with max_from <= first changed index, "
          "redundant calls, any batch cap >= 1 per call, write, flush + re-import, own-version change), both storage formats, and "
          "every method with resume_ok and causal that after a successful call the stored result equals the from-scratch result "
          "and has the target length; C06_driver_dom is the version relative to a documented precondition on the sources; "
          "C06_batch_split is the corollary for different caps. resume_ok + causality are closed for 40 of the 42 modelled integer "
          "methods: C06_closed_families (28: F1 transforms/arithmetic/*_of_others, F2 cumulative*/cumulative_count*/all_time_*, "
          "F3 change, F4 rolling_count), C06_lookback, C06_sum, C06_max/C06_min (monotonic deque, window >= 1), C06_rolling_sum, "
          "C06_rolling_{max,min}_from_starts, C06_{sum,filtered_sum,count,filtered_count}_from_indexes, C06_indirect_sequential. "
          "Refuted by the faithful model and reproduced on the real code: compute_all_time_low_(exclude_default=true) "
          "(C06_atl_exclude_default_refuted; C06_atl_exclude_default_outside_known_class proves the property for sources without "
          "a default value) and compute_first_per_index (C06_first_per_index_batch_limit_refuted: a finite batch limit can make "
          "the call loop forever; C06_first_per_index_regrowth_refuted: stale entries after truncation + regrowth)."),
    note=("Cursor chunking: the Coq models need no chunked-cursor refinement — a Cursor is modelled as a position over the source "
          "(next/advance/fold deliver source[pos..]); READ_CHUNK_SIZE buffering and refills are invisible at the model level, so a "
          "defect in them is not a proof obligation of C06 (it is a read-path property, C08) and is covered here by the differential "
          "on the large profile plus the naive definitional oracle (c06-<method>-differs-from-definition), which also fires when the "
          "incremental and the one-shot run of the real method are wrong in the same way. "
          "Trusted: Coq kernel; extraction + OCaml driver; the Rust harness. The Rust closures are hand-transcribed into "
          "Eager/EFamilies.v and tied to the code by differential agreement (0 model-level mismatches on the generated "
          "histories, debug and release builds)."),
)
