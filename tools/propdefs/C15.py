"""C15 — vecdb: lazy vectors equal their defining formula through every read path."""


def classify(inp, obs, tags):
    t = inp.split(" ")
    kind = t[1] if len(t) > 1 else "?"
    out = [f"kind:{kind}"] + [x for x in tags if x.startswith(("class:", "stor:", "ty:", "m:"))]
    out += [x for x in tags if x in ("grown", "multi-chunk", "noncounting-source", "panic")]
    # non-trivial: at least one read returned values and the case used two or more read methods
    some = any(o.startswith("v ") and o != "v -" or o.startswith("some ") for o in obs)
    methods = sum(1 for x in tags if x.startswith("m:"))
    return out, (some and methods >= 3)


PROP = dict(
    engines=[dict(
        name="lazy", classify=classify,
        quick=dict(cases=1200, shards=12, profiles=["debug", "release"]),
        thorough=dict(cases=9600, shards=16, profiles=["debug", "release"]),
    )],
    rule="one case = one lazy vector (LazyVecFrom1/2/3 with counting/non-counting sources, LazyDeltaVec<DeltaSub> over "
         "u64/i64/u32, LazyDeltaVec<DeltaChange> over u32, LazyAggVec<Sparse>) over real BytesVec/PcoVec sources "
         "(lengths 0..40, 3% around 4096/8192; unequal lengths; sources grown and mappings replaced mid-history), "
         "followed by 14-42 reads drawn over every ReadableVec method (ranges empty/reversed/out of bounds/inside/whole/"
         "usize::MAX, sorted index lists with duplicates and out-of-range tails, signed ranges, early-exit try_fold, cursor); "
         "mappings: sliding windows incl. empty, zeros, random monotone, calendar blocks, running ahead of the index (6%, "
         "outside the property: tagged class:start-after-index, compared with the model only), "
         "first-index lists with duplicates, past the source end (12%), non-monotone (3%); a non-governing FromN source "
         "shorter than len() is likewise tagged only; non-trivial = some read "
         "returned a value and >= 3 distinct methods were used; distinct = distinct input line",
    trusted_base=[
        "the stored sources (clean BytesVec/PcoVec read-only clones) are modelled by their contract only: len, clamped "
        "range read, bounds-checked point read, sorted read skipping out-of-range positions (Lazy/LazyBase.v, Section Source); "
        "validated differentially against real BytesVec and PcoVec sources",
        "sort_unstable_by_key is an arbitrary permutation of the reads in the theorem (C15_delta_sorted_any_order) and insertion sort in the executable model",
        "tools/gen_lazy.py regenerates coq/Gen/LazyConsts.v (READ_CHUNK_SIZE) from /repo",
    ],
    assumptions=[
        "element types u64/i64/u32 (DeltaChange: u32 -> f64, exact); float-valued formulas (DeltaRate, DeltaAvg) are out of scope",
        "LazyDeltaVec: a window start beyond index+1 (DeltaSub) / beyond index (DeltaChange) is not a window and is outside the property (hypothesis wf_starts)",
        "LazyVecFromN: a source that does not govern the length is assumed to cover it (otherwise reads stop at the shortest source while len() reports the governing length)",
    ],
)

ENGINES = [
    dict(name="lazy", path="harness/src/eng_lazy.rs + ocaml/eng_lazy.ml", serves_properties=["C15"],
         kind_free_text="differential: real lazy vectors over real stored sources vs extracted Coq models of every read path, "
                        "plus an implementation-only oracle comparing every result with the defining formula"),
]

TEXT = dict(
    design_ref="DESIGN.md section 4, C15",
    technique="Coq proof that every read path of the lazy-vector models equals the defining formula + extracted-model differential",
    text=("Proof: Coq theorems C15_* (Props/C15.v) over executable transcriptions of LazyVecFrom1/2/3, LazyDeltaVec "
          "(DeltaSub, DeltaChange) and LazyAggVec<Sparse>: for all source contents and lengths, all monotone window-start mappings "
          "with start <= index+1 (any length) and ALL first-index mappings, all ranges and index lists, every read path (range reads, "
          "early-exit folds, point reads, sorted reads under every outcome of the unstable sort, cursor reads) returns the defining "
          "formula over the in-range indices and does not panic. "
          "The models are validated against the real vectors over BytesVec/PcoVec sources (debug and release builds)."),
    note=("Trusted: Coq kernel; extraction and the OCaml driver; the Rust harness; the contract of the stored sources "
          "(C08's subject). The Rust code is modelled, not verified: the tie is differential agreement on generated inputs."),
)
