"""C12 — rawdb: compaction only ever discards bytes nobody can reach."""
import importlib.util, os

_here = os.path.dirname(os.path.abspath(__file__))


def _load(name):
    spec = importlib.util.spec_from_file_location(name, os.path.join(_here, name + ".py"))
    m = importlib.util.module_from_spec(spec)
    spec.loader.exec_module(m)
    return m


_c01, _c05 = _load("C01"), _load("C05")


def _race_classify(inp, obs, tags):
    progs = [t for t in inp.split() if t[:1] == "T"]
    kinds = sorted({o.split(":")[0] for p in progs for o in p.split("=", 1)[1].split(",") if o and o != "-"})
    nontrivial = "path:punch" in tags and "path:fits" in tags
    return [f"op:{k}" for k in kinds] + list(tags), nontrivial


PROP = dict(
    engines=[
        dict(_c01.PROP["engines"][0], quick=dict(cases=320, shards=8, profiles=["debug"]), thorough=dict(cases=12000, shards=16, profiles=["debug"])),
        dict(_c05.PROP["engines"][0], quick=dict(cases=96, shards=8, profiles=["debug"], extra=["--images", "400"]),
             thorough=dict(cases=2000, shards=16, profiles=["debug"], extra=["--images", "3000"])),
        dict(name="schedraw", classify=_race_classify,
             quick=dict(cases=200, shards=8, profiles=["debug"]),
             thorough=dict(cases=8000, shards=16, profiles=["debug", "release"])),
    ],
    rule="[engine schedraw: a punch is attributed to an in-flight or a COMPLETED write of the region it hits; directed schedule write-completes-while-compact-parked-after-listing] engine rawdb: random histories containing compact() (flush + punch_holes) with the reference byte vectors compared "
         "after every step (compact must not change any region's bytes, length or placement) and the complete allocator "
         "state compared with the Coq model; engine crash: histories with compact() under the durability tap — every punch "
         "range is checked by the extracted Coq monitor against every possibly-durable version of every slot, and crash "
         "images taken inside and after compaction are opened with the real Database::open; non-trivial/distinct as for C01/C05",
    trusted_base=_c05.PROP["trusted_base"],
    assumptions=["race part: steps are atomic at lock-acquisition / pause-point granularity; hardware and compiler reorderings within a step and the kernel's mmap coherence after fallocate are assumed"],
)

ENGINES = []

TEXT = dict(
    design_ref="DESIGN.md section 4, C12",
    technique="Coq proofs: compact preserves the abstraction and placements (allocator model) + punch safety as a corollary of the proved crash monitor; differential and crash-image engines",
    text=("Proof: Props/C12.v (sequential, over the allocator model for ALL histories): compact() leaves abs (every region's "
          "length and bytes), every placement and file_len unchanged, and every punch range is disjoint from every live "
          "region's contents and lies in a hole or in [ceil_page(len), reserved). Props/C12crash.v: in a trace accepted by the "
          "(proved sound) crash monitor every punch range avoids the contents of EVERY possibly-durable version of EVERY slot, "
          "hence C05 holds across compaction; C12_all_histories_partial lifts this to every history of the allocator model (the "
          "structural premise that punches occur only while no region-addressed operation is open is checked per trace, not yet proved). Props/C12race.v (step model at lock-acquisition granularity, real schedules replayed by engine schedraw): a punch changes no byte below ceil_page of the length published at punch time; the end-to-end statement for an append racing with compact is REFUTED by a concrete schedule reproduced on the real code (known finding punch-zeroes-bytes-copied-but-not-yet-published)."),
    note=("Trusted as for C01 and C05. The punch itself (fallocate PUNCH_HOLE|KEEP_SIZE) is modelled as zeroing the range; "
          "approx_has_punchable_data's sampling is modelled as 'always punches' (a superset of the real effect)."),
)
