"""Fragment for the coordinator: the compressed-vector half of C04 / C16 (merge into tools/propdefs/C04.py, C16.py).
Not auto-loaded (lives outside tools/propdefs)."""


def classify(inp, obs, tags):
    t = inp.split(" ", 4)
    out = [f"format:{t[0]}", f"type:{t[1]}", f"retention:{t[3]}"] + list(tags)
    ops = inp.split(" ")[4:]
    for o in ops:
        out.append("op:" + {"p": "push", "t": "truncate", "w": "write", "f": "flush", "s": "commit", "r": "reset",
                            "i": "reimport", "o": "reopen", "b": "rollback", "bb": "rollback-before"}.get(o.split(":")[0], "other"))
    for o in obs:
        r = o.split(" ", 2)[1] if " " in o else o
        if r.startswith("err") or r == "panic":
            out.append("result:" + r)
    applied = "rollback:applied" in tags or any(x.startswith("rollback-before:applied-") and not x.endswith("-0") for x in tags)
    return sorted(set(out)), applied and any(x.startswith("commit:") for x in tags)


PROP = dict(
    engines=[dict(
        name="compvec", classify=classify, extra=["--mode", "rollback"],
        quick=dict(cases=480, shards=16, profiles=["debug"]),
        thorough=dict(cases=8000, shards=16, profiles=["debug", "release"]),
    )],
    extra_targets=["Props/C04comp.vo", "Props/C16comp.vo", "Vec/CvInstProofs.vo"],
    rule="commit/rollback histories on PcoVec/LZ4Vec/ZstdVec (+EagerVec wrappers), retention 1..4, 8-26 operations: pushes "
         "(1 value .. 1.5 pages, exactly filling / overflowing a page), truncations (to 0, on a boundary, just below / at the "
         "last committed length, anywhere), commits with strictly increasing stamps (stamps of an abandoned future are "
         "re-used after rollbacks), rollback bursts of depth 1..k+1, rollback_before(0 / current / current+1 / a committed "
         "stamp), drop+re-import and reopen, plain write()/flush() between commits in 25% of the histories (tagged, "
         "model-level only), reset in 15%. Spec oracle inside the harness: a stack of committed snapshots with retention "
         "(no model). non-trivial = at least one commit and one applied rollback; distinct = distinct input line",
    trusted_base=[
        "pco / lz4_flex / zstd are not modelled (round-trip hypothesis, tested); the abstract rawdb region stands for the allocator (C01)",
        "the change directory is modelled as an ordered map stamp -> bytes (fs::read_dir/write/remove_file of base/rollback.rs)",
    ],
    assumptions=[
        "theorems about change records carry the side condition `fits` (u64 fields and cursor positions below 2^64: usize in the code)",
        "plain write() between commits with a pending truncation and rollback_before on a missing changes directory are "
        "compared at model level only (outside C04's quantifier, coordinator decision)",
    ],
)

ENGINES = [
    dict(name="compvec", path="harness/src/eng_compvec.rs + ocaml/eng_compvec.ml", serves_properties=["C07", "C03", "C04", "C16"],
         kind_free_text="differential: real compressed vectors vs the extracted Coq model after every step, including "
                        "stamped_write_with_changes with retention, rollback, rollback_before and the listing + digests of "
                        "the change directory; implementation-only oracles: reference vector, C07 page-index predicate, "
                        "stack of committed snapshots (C04/C16)"),
]

TEXT = dict(
    design_ref="DESIGN.md section 4, C04 / C16 (compressed format)",
    technique="Coq proof of commit/rollback exactness at every baseline + extracted-model differential",
    text=("Proof (Props/C04comp.v, C16comp.v): the model of the compressed vector refines a snapshot-stack reference "
          "{contents, stamp, baseline, stack of committed snapshots with retention k} along EVERY commit/rollback history "
          "outside the decidable known class (C04_comp_chain: pushes, truncations that do not go below the truncation start "
          "of the retained record of the current stamp, commits with increasing stamps, rollback, rollback_before; any "
          "length, depth and interleaving); a rollback pops exactly the top snapshot (what collect() returns, and the "
          "stamp), a commit keeps the newest k-1 older records valid over the new pages; rollback_before never stops "
          "midway there and ends where the reference walk ends; outside that discipline a refusal leaves a state reached "
          "by successful rollbacks (C04_comp_rollback_before_refusal) and a failed single rollback changes nothing. "
          "C16_comp_count: after n commits from the initial import exactly min(k, n) consecutive rollbacks succeed, the "
          "next is refused. The chain across a truncating commit is refuted by a vm_compute witness (known finding). "
          "Records are consumed exactly (expect_end)."),
    note=("After a write() outside a commit, a reset or a re-import the stack refinement is re-entered only through "
          "C04_comp_continuation (C03 refinement of the restored state) and C04_comp_rollback_step (depth 1 from any "
          "baseline); a theorem carrying the stack across those operations is not proved. Fault injection on the change "
          "directory is the raw engine's."),
)
