#!/bin/sh
# tools/try_seeded.sh <patch.diff> <Cxx> [<Cyy> …]
# Runs the quick checks of the given properties against a PRIVATE copy of /repo with the seeded
# change applied (so that builders working against /repo are not disturbed): /root/mutest/repo is
# a copy of /repo's working tree, /root/mutest/verif a copy of /verif whose harness depends on it.
set -e
P=$(readlink -f "$1"); shift
M=${MUTEST:-/root/mutest}
mkdir -p $M
rsync -a --delete --exclude target /repo/ $M/repo/
rsync -a --delete --exclude work --exclude .git --exclude evidence/replays --exclude harness/target /verif/ $M/verif/ 2>/dev/null || true
sed -i "s#/repo/crates#$M/repo/crates#g" $M/verif/harness/Cargo.toml
cd $M/repo && patch -p1 -s -N --fuzz=3 < "$P" || { echo "patch does not apply"; exit 2; }
# rsync restores reverted files with their OLD mtimes, which cargo takes for "unchanged": force a rebuild
find $M/repo/crates -name '*.rs' -exec touch {} +
cd $M/verif
export ANYDB_REPO=$M/repo
rm -f harness/Cargo.lock; cp $M/repo/Cargo.lock harness/Cargo.lock
for c in "$@"; do
  echo "=== $c against $P"
  ./check $c --tier quick 2>&1 | grep -E "VIOLATION|KNOWN-FINDING|quick:|broken|FAILED" | cut -c1-400
done
