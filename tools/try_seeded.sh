#!/bin/sh
# tools/try_seeded.sh <patch.diff> <Cxx> [<Cyy> …] — applies a seeded change to /repo, runs the
# quick checks of the given properties, and reverts exactly that patch again (git apply -R).
P=$1; shift
cd /verif
git -C /repo apply --check "$P" || { echo "patch does not apply"; exit 2; }
git -C /repo apply "$P"
for c in "$@"; do
  echo "=== $c against $(basename $(dirname $P))/$(basename $P)"
  ./check $c --tier quick 2>&1 | grep -E "VIOLATION|KNOWN-FINDING|quick:|broken" | cut -c1-300
done
git -C /repo apply -R "$P"
git -C /repo status --short | grep -v "^ M crates/vecdb\|^ M crates/rawdb" | head -3
