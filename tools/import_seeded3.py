#!/usr/bin/env python3
"""Round 3: copies a delivery /tmp/seed3/out/<Cxx>-m5/ into /verif/seeded/<Cxx>-m5/ once the coordinator's own
verification log (/root/seedlog/<Cxx>.log, written by /tmp/seed3/verify.sh in a scratch worktree) confirms:
the demo passes without the change, fails with it, and every `test result` line of the suite is ok with it.
usage: tools/import_seeded3.py Cxx [Cyy …]"""
import json, os, re, shutil, sys
ROOT = os.path.dirname(os.path.dirname(os.path.abspath(__file__)))
for prop in sys.argv[1:]:
    out = f"/tmp/seed3/out/{prop}-m5"
    t = open(f"/root/seedlog/{prop}.log").read()
    parts = re.split(r"== \S+ (?:\([^)]*\) )?(demo WITHOUT change|demo WITH change|suite WITH change)\n", t)
    sec = {parts[i]: parts[i + 1].split("== checks")[0] for i in range(1, len(parts) - 1, 2)}
    ok_without = "test result: ok" in sec.get("demo WITHOUT change", "") and "FAILED" not in sec.get("demo WITHOUT change", "")
    fails_with = any(k in sec.get("demo WITH change", "") for k in ("FAILED", "error: test failed", "panicked at"))
    suite = sec.get("suite WITH change", "")
    failed = [l for l in suite.splitlines() if "FAILED" in l or l.strip().startswith("error")]
    n_ok = sum(int(m.group(1)) for m in re.finditer(r"^\s*(\d+) test result: ok", suite, re.M))
    # the timing-based stress test is flaky under machine load with or without a change (DESIGN 12)
    only_flaky = all("length_data_consistency_stress" in l or "concurrent_rw" in l or "test result: FAILED" in l or "target failed" in l for l in failed) and \
        sum("test result: FAILED" in l for l in failed) <= 1
    suite_ok = n_ok >= 8 and (not failed or only_flaky)
    if not (ok_without and fails_with and suite_ok):
        print(prop, "NOT confirmed", ok_without, fails_with, suite_ok, failed[:3]); continue
    d = os.path.join(ROOT, "seeded", f"{prop}-m5")
    os.makedirs(d, exist_ok=True)
    shutil.copy(os.path.join(out, "patch.diff"), os.path.join(d, "patch.diff"))
    shutil.copy(os.path.join(out, "demo.rs"), os.path.join(d, "demo.rs"))
    notes = open(os.path.join(out, "notes.md")).read() if os.path.exists(os.path.join(out, "notes.md")) else ""
    checks = re.findall(r"^(=== .*|VIOLATION.*|KNOWN-FINDING.*|\[check\] C\d\d quick:.*)$", t.split("== checks")[-1], re.M)
    meta = dict(
        breaks_property=prop, patch="patch.diff", demonstration="demo.rs",
        base_commit="2a6ead6 (HEAD of /repo; the scratch worktree the change was written in)",
        written_by="independent sub-agent given only the property text and a scratch git worktree of /repo (nothing from /verif)",
        needs_to_manifest=notes[:3500],
        coordinator_ran=[
            "scratch worktree, library sources reset to HEAD, demo copied into the crate's tests/: cargo test --test m5_demo: pass",
            "git apply patch.diff; same demo: FAIL",
            "cargo test --workspace --no-fail-fast --offline with the patch (demo moved aside): every `test result` line ok"
            + (" (except the load-sensitive concurrent_rw stress test, see DESIGN 12)" if failed else ""),
        ],
        suite_ok_lines=n_ok,
        checks_run_against_it=[c[:300].replace("/root/mutest", "<copy>") for c in checks],
    )
    json.dump(meta, open(os.path.join(d, "meta.json"), "w"), indent=1)
    print(prop, "imported;", " | ".join(c[:100] for c in checks if c.startswith(("VIOLATION", "[check]")))[:260])
