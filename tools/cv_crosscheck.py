#!/usr/bin/env python3
"""Cross-check of the extraction for engine `compvec` (DESIGN.md 2.2): a few generated histories are evaluated
(a) by the extracted OCaml model (driver engine `compvecx`) and (b) inside Coq with vm_compute on the same
definitions (Vec/CvInst.x_trace_digest); the digests of the whole runs must be equal.
usage: tools/cv_crosscheck.py [--cases N] [--seed S]
Prints ONE summary line on stdout (details on stderr); exit 0 = all equal, 1 = a digest differs, 2 = not evaluated."""
import os, re, subprocess, sys
ROOT = os.path.dirname(os.path.dirname(os.path.abspath(__file__)))
def main():
    n, seed = 12, 1
    a = sys.argv[1:]
    if "--cases" in a: n = int(a[a.index("--cases") + 1])
    if "--seed" in a: seed = int(a[a.index("--seed") + 1])
    work = os.path.join(ROOT, "work"); os.makedirs(work, exist_ok=True)
    hb = os.path.join(ROOT, "harness", "target", "debug", "anydb_verif_harness")
    tr = subprocess.run([hb, "compvec", "--seed", str(seed), "--cases", str(6 * n)], capture_output=True, text=True).stdout
    # keep the small histories (the Coq side parses every value as a literal)
    lines = []
    for l in tr.splitlines():
        if not l.startswith("I "): continue
        tot = sum(int(t.split(".")[-1]) for t in l.split()[6:] if t.startswith("p:") and "." in t)
        if tot <= 6000: lines.append(l)
        if len(lines) >= n: break
    drv = subprocess.run([os.path.join(ROOT, "ocaml", "driver"), "compvecx"], input="\n".join(lines) + "\n", capture_output=True, text=True).stdout
    dig, coq = {}, {}
    for l in drv.splitlines():
        m = re.match(r"E (\S+) digest (\d+)", l)
        if m: dig[m.group(1)] = int(m.group(2))
        m = re.match(r"E (\S+) coq (.*)", l)
        if m: coq[m.group(1)] = m.group(2)
    ids = [i for i in dig if i in coq]
    src = ["From Anydb Require Import Common.Base Vec.CvModel Vec.CvInst.", "Open Scope N_scope."]
    for i in ids:
        src.append(f"Eval vm_compute in {coq[i]}.")
    vf = os.path.join(work, "cases_compvec.v")
    open(vf, "w").write("\n".join(src) + "\n")
    p = subprocess.run(["coqc", "-Q", os.path.join(ROOT, "coq"), "Anydb", "-w", "-notation-overridden", "-o", os.path.join(work, "cases_compvec.vo"), vf],
                       capture_output=True, text=True, cwd=os.path.join(ROOT, "coq"), timeout=1500)
    vals = [int(x) for x in re.findall(r"=\s*(\d+)\s*\n\s*:\s*N", p.stdout)]
    if p.returncode != 0 or len(vals) != len(ids):
        print(f"extraction cross-check compvec: NOT EVALUATED ({len(vals)} of {len(ids)} values computed by coqc)")
        sys.stderr.write(p.stderr[-800:] + "\n")
        return 2
    bad = [(i, dig[i], v) for i, v in zip(ids, vals) if dig[i] != v]
    print(f"extraction cross-check compvec: {len(ids)} histories, {len(ids) - len(bad)} equal, {len(bad)} different")
    for i, d, v in bad[:5]:
        sys.stderr.write(f"  case {i}: ocaml {d} coq {v}\n")
    return 1 if bad else 0
if __name__ == "__main__":
    sys.exit(main())
