#!/usr/bin/env python3
"""Translator (A) for C11: regenerate coq/Gen/LockSeqs.v from /repo's current working tree.

Source: `harness locks --dump` — the freshly built harness drives every public operation through
every allocator path, single-threaded, with the lock tap installed, and prints one canonical
lock program per scenario (`P <name> <tokens…>`; `+class.inst:r|w` acquire, `-class.inst`
release — reconstructed from the held-sets probed at every acquisition — `J<d>` join).
Written: the class numbering, `rank : nat -> nat` (class -> rank), one `Definition p_<name>`
per scenario, `P` (distinct programs) and `P_names`.

Rank assignment.  The six documented classes get 10·(position+1) in the order of the doc
comment on `DatabaseInner` (read from coq/Gen/Consts.v, which gen_consts.py regenerated just
before).  Every other class found in the dump is placed, greedily in the order of EXTRA_ORDER
below, into the slot between / around the documented ranks that makes the largest number of
recorded programs rank-monotone (ties: the highest slot, i.e. innermost); the choice is written into the file.

Fails loudly (exit 2, output file deleted) if the harness cannot be run, prints an unknown
class or an unparsable token, or if the documented order is not the expected six classes."""
import os, re, subprocess, sys

ROOT = os.path.dirname(os.path.dirname(os.path.abspath(__file__)))
OUT = os.path.join(ROOT, "coq", "Gen", "LockSeqs.v")
CONSTS = os.path.join(ROOT, "coq", "Gen", "Consts.v")
# fixed class numbering, shared with harness/src/eng_locks.rs and ocaml/eng_locks.ml
CLASSES = ["layout", "regions", "mmap", "file", "meta", "dirty_bounds",
           "bg_tasks", "bg_sync", "header", "pages", "cache", "exit", "vecmut"]
DOCUMENTED = ["layout", "regions", "mmap", "file", "meta", "dirty_bounds"]
# order in which the other classes are placed (outermost first): two of them that end up in the
# same slot keep this order
EXTRA_ORDER = ["vecmut", "exit", "header", "bg_tasks", "bg_sync", "pages", "cache"]


class GenError(Exception):
    pass


def harness_bin():
    b = os.environ.get("ANYDB_HARNESS_BIN") or os.path.join(ROOT, "harness", "target", "debug", "anydb_verif_harness")
    if not os.path.exists(b):
        raise GenError(f"harness binary not found: {b}")
    return b


def dump():
    try:
        p = subprocess.run([harness_bin(), "locks", "--dump"], capture_output=True, text=True, timeout=100)
    except subprocess.TimeoutExpired:
        raise GenError("`harness locks --dump` timed out")
    if p.returncode != 0:
        raise GenError(f"`harness locks --dump` exit {p.returncode}: {p.stderr[-500:]}")
    progs, notes = [], {}
    for line in p.stdout.splitlines():
        t = line.split()
        if not t:
            continue
        if t[0] == "P":
            progs.append((t[1], [parse_tok(x) for x in t[2:] if x != "-"]))
        elif t[0] == "N":
            notes.setdefault(t[1], []).append(" ".join(t[2:]))
    if len(progs) < 20:
        raise GenError(f"only {len(progs)} programs in the dump")
    return progs, notes


def parse_tok(x):
    m = re.fullmatch(r"J(\d+)", x)
    if m:
        return ("J", int(m.group(1)))
    m = re.fullmatch(r"([+-])([a-z_]+)\.(\d+)(?::([rw]))?", x)
    if not m:
        raise GenError(f"unparsable token {x!r}")
    if m.group(2) not in CLASSES:
        raise GenError(f"unknown lock class {m.group(2)!r} (extend CLASSES in gen_lockseqs.py, eng_locks.rs, eng_locks.ml)")
    c = CLASSES.index(m.group(2))
    if m.group(1) == "+":
        if m.group(4) is None:
            raise GenError(f"acquire without mode {x!r}")
        return ("A", c, int(m.group(3)), m.group(4))
    return ("R", c, int(m.group(3)))


def documented_order():
    try:
        t = open(CONSTS).read()
    except OSError as e:
        raise GenError(f"cannot read Gen/Consts.v: {e}")
    m = re.search(r"\(\* documented lock order: ([^*]+) \*\)", t)
    if not m:
        raise GenError("documented lock order not found in Gen/Consts.v")
    names = [x.strip() for x in m.group(1).split("<")]
    if sorted(names) != sorted(DOCUMENTED):
        raise GenError(f"documented lock order names changed: {names}")
    return names


def monotone(prog, rank):
    """rank_monotone_b of Conc/RwLock.v restricted to the classes that have a rank so far"""
    held = []
    for ins in prog:
        if ins[0] == "A":
            c = ins[1]
            if c in rank:
                for (hc, hi) in held:
                    if hc in rank and not rank[hc] < rank[c]:
                        return False
            held.append((c, ins[2]))
        elif ins[0] == "R":
            if (ins[1], ins[2]) not in held:
                return False
            # most recent acquisition first
            for k in range(len(held) - 1, -1, -1):
                if held[k] == (ins[1], ins[2]):
                    del held[k]
                    break
        else:
            if held:
                return False
    return not held


def choose_ranks(progs, order):
    rank = {CLASSES.index(n): 10 * (i + 1) for i, n in enumerate(order)}
    chosen = []
    used = set(c for _, p in progs for ins in p if ins[0] in "AR" for c in [ins[1]])
    extra = [CLASSES.index(n) for n in EXTRA_ORDER] + [c for c in range(len(CLASSES)) if c not in rank and CLASSES[c] not in EXTRA_ORDER]
    for k, c in enumerate(extra):
        best = None
        for slot in range(0, len(order) + 1):
            r = 10 * slot + 1 + k            # strictly between the documented ranks, distinct per class
            trial = dict(rank)
            trial[c] = r
            score = sum(1 for _, p in progs if monotone(p, trial))
            if best is None or score >= best[0]:
                best = (score, r, slot)
        rank[c] = best[1]
        below = order[best[2] - 1] if best[2] > 0 else None
        above = order[best[2]] if best[2] < len(order) else None
        where = (f"between {below} and {above}" if below and above else f"below {above}" if above else f"above {below}")
        chosen.append((CLASSES[c], best[1], where, best[0], c in used))
    return rank, chosen


def coq_ins(ins):
    if ins[0] == "A":
        return f"Acq ({ins[1]}, {ins[2]}) {'Wr' if ins[3] == 'w' else 'Rd'}"
    if ins[0] == "R":
        return f"Rel ({ins[1]}, {ins[2]})"
    return f"Join {ins[1]}"


def ident(name):
    return "p_" + re.sub(r"[^A-Za-z0-9]", "_", name)


def gen():
    order = documented_order()
    progs, notes = dump()
    rank, chosen = choose_ranks(progs, order)
    out = ["(* GENERATED by tools/gen_lockseqs.py from `harness locks --dump` on /repo's working tree —",
           "   do not edit, do not commit.  Lock programs of the public operations as recorded through",
           "   the lock tap (instances canonical per program), and the rank of every lock class. *)",
           "From Coq Require Import List.",
           "Import ListNotations.",
           "From Anydb Require Import Conc.RwLock.",
           "",
           "(* lock classes *)"]
    for i, c in enumerate(CLASSES):
        out.append(f"Definition c_{c} : nat := {i}.")
    out.append("")
    out.append("(* documented order: " + " < ".join(order) + " (ranks 10, 20, …)")
    for (c, r, where, score, used) in chosen:
        out.append(f"   {c}: rank {r}, {where}" + (f" — {score} of {len(progs)} programs monotone with this choice" if used else " — class not seen in any program"))
    out.append("*)")
    table = [rank[i] for i in range(len(CLASSES))]
    out.append("Definition rank_table : list nat := [" + "; ".join(str(r) for r in table) + "].")
    out.append("Definition rank (c : nat) : nat := nth c rank_table 0.")
    out.append("")
    distinct, names = [], []
    for name, p in progs:
        out.append(f"(* {name}" + "".join(f"; {n}" for n in notes.get(name, []) if not n.startswith("result ok")) + " *)")
        out.append(f"Definition {ident(name)} : prog := [" + "; ".join(coq_ins(i) for i in p) + "].")
        if p and p not in distinct:
            distinct.append(p)
            names.append(ident(name))
    out.append("")
    out.append("(* the distinct non-empty programs *)")
    out.append("Definition P : list prog := [" + ";\n  ".join(names) + "].")
    return "\n".join(out) + "\n"


def main():
    try:
        text = gen()
    except GenError as e:
        print(f"gen_lockseqs: {e}", file=sys.stderr)
        if os.path.exists(OUT):
            os.remove(OUT)
        return 2
    os.makedirs(os.path.dirname(OUT), exist_ok=True)
    old = open(OUT).read() if os.path.exists(OUT) else None
    if old != text:
        open(OUT, "w").write(text)
        print("gen_lockseqs: LockSeqs.v updated")
    return 0


if __name__ == "__main__":
    sys.exit(main())
