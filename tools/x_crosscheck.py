#!/usr/bin/env python3
"""Cross-check of the extraction (DESIGN.md 2.2) for one engine: generated histories of that engine are evaluated
(a) by the extracted OCaml model (driver engine `<engine>x`) and (b) inside Coq with vm_compute on the SAME
definitions (a digest of the whole run: every state, every result); the two numbers must be equal per history.
usage: tools/x_crosscheck.py <engine> [--cases N] [--seed S]
Prints ONE summary line on stdout (details on stderr); exit 0 = all equal, 1 = a digest differs, 2 = not evaluated."""
import os, re, subprocess, sys
ROOT = os.path.dirname(os.path.dirname(os.path.abspath(__file__)))

def small_rawdb(line):
    # keep histories whose writes stay small: vm_compute walks a closure chain per sampled byte
    toks = line.split()[3:]
    return len(toks) <= 60

ENGINES = {
    "rawdb": dict(imports="From Anydb Require Import Common.Base Gen.Consts Rawdb.AMap Rawdb.Alloc Rawdb.AllocDigest.",
                  keep=small_rawdb, extra=[]),
    "codec": dict(imports="From Anydb Require Import Common.Base Common.LE Gen.Consts Codec.Meta Codec.Vecdb Codec.Utf8 Codec.CodecDigest.",
                  keep=lambda l: len(l) < 20000, extra=[]),
}

def main():
    a = sys.argv[1:]
    if not a or a[0] not in ENGINES:
        print("usage: x_crosscheck.py <" + "|".join(ENGINES) + "> [--cases N] [--seed S]"); return 2
    eng = a[0]; cfg = ENGINES[eng]
    n, seed = 24, 1
    if "--cases" in a: n = int(a[a.index("--cases") + 1])
    if "--seed" in a: seed = int(a[a.index("--seed") + 1])
    work = os.path.join(ROOT, "work"); os.makedirs(work, exist_ok=True)
    hb = os.environ.get("ANYDB_HARNESS_BIN") or os.path.join(ROOT, "harness", "target", "debug", "anydb_verif_harness")
    tr = subprocess.run([hb, eng, "--seed", str(seed), "--cases", str(4 * n)] + cfg["extra"], capture_output=True, text=True).stdout
    lines = [l for l in tr.splitlines() if l.startswith("I ") and cfg["keep"](l)][:3 * n]
    drv = subprocess.run([os.path.join(ROOT, "ocaml", "driver"), eng + "x"], input="\n".join(lines) + "\n", capture_output=True, text=True).stdout
    dig, coq = {}, {}
    for l in drv.splitlines():
        m = re.match(r"E (\S+) digest (\d+)", l)
        if m: dig[m.group(1)] = int(m.group(2))
        m = re.match(r"E (\S+) coq (.*)", l)
        if m: coq[m.group(1)] = m.group(2)
    ids = [i for i in dig if i in coq and len(coq[i]) < 150000][:n]
    if not ids:
        print(f"extraction cross-check {eng}: NOT EVALUATED (the driver produced no digests)")
        sys.stderr.write(drv[-800:] + "\n"); return 2
    src = [cfg["imports"], "Open Scope N_scope."] + [f"Eval vm_compute in {coq[i]}." for i in ids]
    vf = os.path.join(work, f"cases_{eng}x.v")
    open(vf, "w").write("\n".join(src) + "\n")
    p = subprocess.run(["coqc", "-Q", os.path.join(ROOT, "coq"), "Anydb", "-w", "-notation-overridden", "-o",
                        os.path.join(work, f"cases_{eng}x.vo"), vf],
                       capture_output=True, text=True, cwd=os.path.join(ROOT, "coq"), timeout=1500)
    vals = [int(x) for x in re.findall(r"=\s*(\d+)\s*\n\s*:\s*N", p.stdout)]
    if p.returncode != 0 or len(vals) != len(ids):
        print(f"extraction cross-check {eng}: NOT EVALUATED ({len(vals)} of {len(ids)} values computed by coqc)")
        sys.stderr.write(p.stderr[-800:] + "\n"); return 2
    bad = [(i, dig[i], v) for i, v in zip(ids, vals) if dig[i] != v]
    nops = sum(len(l.split()) - 3 for l in lines)
    print(f"extraction cross-check {eng}: {len(ids)} histories ({nops} tokens), {len(ids) - len(bad)} equal, {len(bad)} different")
    for i, d, v in bad[:5]:
        sys.stderr.write(f"  case {i}: ocaml {d} coq {v}\n")
    return 1 if bad else 0

if __name__ == "__main__":
    sys.exit(main())
