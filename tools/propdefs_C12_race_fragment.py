"""C12 (race part) — fragment to merge into tools/propdefs/C12.py: compact() vs a writer extending a region into its reserve.
Same PROP/TEXT/ENGINES shape as the auto-loaded files; NOT auto-loaded (the coordinator merges C12)."""


def classify(inp, obs, tags):
    progs = [t for t in inp.split() if t[:1] == "T"]
    kinds = sorted({o.split(":")[0] for p in progs for o in p.split("=", 1)[1].split(",") if o and o != "-"})
    nontrivial = "path:punch" in tags and "path:fits" in tags
    return [f"op:{k}" for k in kinds] + list(tags), nontrivial


PROP = dict(
    engines=[dict(
        name="schedraw", classify=classify,
        quick=dict(cases=400, shards=8, profiles=["debug"]),
        thorough=dict(cases=8000, shards=16, profiles=["debug", "release"]),
    )],
    extra_targets=["Props/C12race.vo"],
    rule="engine schedraw (see C10): directed schedules placing punch_holes between write_with's data copy and its length "
         "update (new data beyond / within the old length's page, compact before / after the write, truncate then append "
         "under a compact parked with its locks held) + random programs containing compact and appends with random schedules; "
         "oracle: after every operation of a thread its regions hold exactly what its own operations wrote (key "
         "punch-zeroes-bytes-copied-but-not-yet-published when the differing bytes are zero and inside a punched range)",
    trusted_base=["a punch is modelled as zeroing the range in the shared data map (kernel page-cache/mmap coherence after fallocate(PUNCH_HOLE) is assumed)"],
)

ENGINES = [
    dict(name="schedraw", path="harness/src/eng_schedraw.rs + ocaml/eng_schedraw.ml", serves_properties=["C10", "C12"],
         kind_free_text="schedule replay: real threads parked at lock acquisitions / pause points by a controller (directed + random schedules) with spec-level oracles, compared step for step with the extracted Coq step model"),
]

TEXT = dict(
    design_ref="DESIGN.md section 4, C12 (concurrent part)",
    technique="Coq step model: punch frame theorem for all states + refutation witness; schedule replay on the real code",
    text=("Race part: proof on the step model; partial: hardware/compiler reorderings within a step and the kernel's mmap "
          "coherence are assumed. Props/C12race.v proves, for every state of the step model, that a punch of a region's tail "
          "changes no byte below ceil_page of the length published at the time of the punch nor at or above the end of the "
          "reserve (so published bytes are never zeroed), and that data copied by write_with's fits path but not yet "
          "published survives iff it ends within the old length's page; the end-to-end statement (an append racing with "
          "compact reads back intact) is REFUTED by a concrete schedule that the harness reproduces on the real code."),
    note=("The refuted statement is a genuine defect of punch_holes/write_with (known finding "
          "punch-zeroes-bytes-copied-but-not-yet-published)."),
)
