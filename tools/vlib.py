#!/usr/bin/env python3
"""Shared machinery of ./check: regenerate Gen/, build and audit the Coq development, build the
harness from /repo's working tree, run the correspondence engines, decide the verdict and
write the evidence file.  See DESIGN.md section 2.3."""
import concurrent.futures, hashlib, json, os, re, shutil, subprocess, sys, time

ROOT = os.path.dirname(os.path.dirname(os.path.abspath(__file__)))
COQ = os.path.join(ROOT, "coq")
HARNESS = os.path.join(ROOT, "harness")
OCAML = os.path.join(ROOT, "ocaml")
WORK = os.path.join(ROOT, "work")
EVID = os.path.join(ROOT, "evidence")
REPLAYS = os.path.join(EVID, "replays")
REPO = os.environ.get("ANYDB_REPO", "/repo")
KNOWN = os.path.join(ROOT, "known_findings.txt")
NPROC = 16

ENV = dict(os.environ, CARGO_NET_OFFLINE="true", ANYDB_REPO=REPO)

FORBIDDEN = [
    r"\bAdmitted\b", r"\badmit\b", r"\bAxiom\b", r"\bAxioms\b", r"\bParameter\b", r"\bParameters\b",
    r"\bConjecture\b", r"\bAdmit Obligations\b", r"Unset\s+Guard\s+Checking", r"Unset\s+Positivity\s+Checking",
    r"Unset\s+Universe\s+Checking", r"bypass_check", r"-type-in-type", r"-impredicative-set", r"\bnative_compute\b",
]
# axioms of the standard library that a proof may depend on (named in the trusted base when used)
AXIOM_ALLOW = {
    "functional_extensionality_dep", "FunctionalExtensionality.functional_extensionality_dep",
    "Eqdep.Eq_rect_eq.eq_rect_eq", "eq_rect_eq", "JMeq_eq", "JMeq.JMeq_eq", "classic", "Classical_Prop.classic",
    "proof_irrelevance", "ProofIrrelevance.proof_irrelevance", "propositional_extensionality",
}


import contextlib, fcntl


@contextlib.contextmanager
def build_lock():
    """Serialises Coq/OCaml builds in the shared tree (several checks may run at once)."""
    os.makedirs(WORK, exist_ok=True)
    with open(os.path.join(WORK, ".buildlock"), "w") as f:
        fcntl.flock(f, fcntl.LOCK_EX)
        try:
            yield
        finally:
            fcntl.flock(f, fcntl.LOCK_UN)


def log(msg):
    print(f"[check] {msg}", flush=True)


def run(cmd, cwd=None, timeout=None, env=None, stdin=None):
    t0 = time.time()
    try:
        p = subprocess.run(cmd, cwd=cwd, timeout=timeout, env=env or ENV, capture_output=True, text=True, stdin=stdin)
        return p.returncode, p.stdout, p.stderr, time.time() - t0
    except subprocess.TimeoutExpired as e:
        return 124, (e.stdout or b"").decode() if isinstance(e.stdout, bytes) else (e.stdout or ""), "timeout", time.time() - t0


# --------------------------------------------------------------------------- builds
def build_harness(profile="debug"):
    """cargo build of the harness against /repo's current working tree (hooks on)."""
    lock = os.path.join(HARNESS, "Cargo.lock")
    if not os.path.exists(lock):
        shutil.copy(os.path.join(REPO, "Cargo.lock"), lock)
    cmd = ["cargo", "build", "--offline", "-q"] + (["--release"] if profile == "release" else [])
    rc, out, err, dt = run(cmd, cwd=HARNESS, timeout=1500)
    if rc != 0:
        # a changed dependency set in /repo: refresh the lock file once
        shutil.copy(os.path.join(REPO, "Cargo.lock"), lock)
        rc, out, err, dt = run(cmd, cwd=HARNESS, timeout=1500)
    binp = os.path.join(HARNESS, "target", profile, "anydb_verif_harness")
    return rc == 0, binp, err[-4000:], dt


# which coq/Gen modules each translator writes (an unknown translator is taken to concern every property)
GEN_OUTPUTS = {"gen_consts.py": ["Consts", "Sizes"], "gen_exprs.py": ["Exprs"], "gen_import.py": ["ImportFacts"],
               "gen_lazy.py": ["LazyConsts"], "gen_lockseqs.py": ["LockSeqs"], "gen_openlock.py": ["OpenOrder"],
               "gen_cursor.py": ["CursorOrder"]}
FAILED_GEN = {}      # "Gen/X" -> message of the translator that could not regenerate it (filled by regen)


def regen(harness_bin):
    """Runs every translator.  A translator that fails (a source pattern no longer matches) leaves the
    PREVIOUS generated file in place, so that the rest of the development still builds, and is recorded
    in FAILED_GEN: `gen_concerns` then tells a check whether its theorems or its extracted model depend
    on the stale module — only those properties count as broken (no longer shown to hold)."""
    env = dict(ENV, ANYDB_HARNESS_BIN=harness_bin)
    gen_dir = os.path.join(COQ, "Gen")
    os.makedirs(gen_dir, exist_ok=True)
    before = {f: open(os.path.join(gen_dir, f)).read() for f in os.listdir(gen_dir) if f.endswith(".v")}
    FAILED_GEN.clear()
    ok, msgs = True, ""
    gens = ["gen_consts.py"] + sorted(x for x in os.listdir(os.path.join(ROOT, "tools"))
                                      if x.startswith("gen_") and x.endswith(".py") and x != "gen_consts.py")
    for g in gens:
        rc, o, e, _ = run([sys.executable, os.path.join(ROOT, "tools", g)], env=env, timeout=120)
        msg = (o + e).strip()
        msgs += ("\n" if msgs and msg else "") + msg
        if rc == 0:
            continue
        ok = False
        outs = GEN_OUTPUTS.get(g)
        for m in (outs if outs is not None else ["*"]):
            FAILED_GEN["Gen/" + m] = f"{g}: {msg.splitlines()[-1] if msg else 'failed'}"
            if m == "*":
                continue
            path = os.path.join(gen_dir, m + ".v")
            if m + ".v" in before:
                if not os.path.exists(path) or open(path).read() != before[m + ".v"]:
                    open(path, "w").write(before[m + ".v"])       # keep the stale file: dependents are flagged, not rebuilt
            elif not os.path.exists(path):
                open(path, "w").write("(* the translator failed and there is no previous version *)\n"
                                      "Definition translator_failed : False := I.\n")
    with build_lock():
        run([sys.executable, os.path.join(ROOT, "tools", "mkcoqproject.py")], timeout=120)
    return ok, msgs.strip()


def coq_closure(roots):
    """Transitive dependencies (module paths like `Rawdb/Alloc`) of the given modules, read from the
    dependency file coq_makefile maintains."""
    deps = {}
    try:
        for line in open(os.path.join(COQ, ".Makefile.d")):
            head, _, tail = line.partition(":")
            tg = head.split()
            if not tg or not tg[0].endswith(".vo"):
                continue
            deps[tg[0][:-3]] = [t[:-3] for t in tail.split() if t.endswith(".vo")]
    except OSError:
        return None
    seen, todo = set(), list(roots)
    while todo:
        m = todo.pop()
        if m in seen:
            continue
        seen.add(m)
        todo += deps.get(m, [])
    return seen


def gen_concerns(prop, engines):
    """The failed translators whose output the property's theorem files or the extracted models of its
    engines depend on: [(module, message)]."""
    if not FAILED_GEN:
        return []
    if "Gen/*" in FAILED_GEN:
        return list(FAILED_GEN.items())
    roots = ["Props/" + f[:-2] for f in prop_files(prop)]
    for e in engines:
        ext = os.path.join(COQ, "Extract", e + ".ext")
        if os.path.exists(ext):
            for line in open(ext):
                if line.startswith("require"):
                    roots += [m.replace(".", "/") for m in line.split()[1:]]
    clo = coq_closure(roots)
    if clo is None:
        return list(FAILED_GEN.items())
    return [(m, msg) for m, msg in FAILED_GEN.items() if m in clo]


def coq_make(targets, timeout=3000):
    with build_lock():
        rc, out, err, dt = run(["make", f"-j{NPROC}"] + targets, cwd=COQ, timeout=timeout)
    return rc == 0, (out + "\n" + err)[-6000:], dt


def coq_flags():
    flags = []
    for line in open(os.path.join(COQ, "_CoqProject")):
        line = line.strip()
        if line.startswith("-Q"):
            flags += line.split()
        elif line.startswith("-arg"):
            toks = line.split()
            flags += [toks[i + 1] for i in range(0, len(toks), 2)]
    return flags


def strip_comments(text):
    out, depth, i = [], 0, 0
    while i < len(text):
        if text.startswith("(*", i):
            depth += 1; i += 2
        elif text.startswith("*)", i) and depth > 0:
            depth -= 1; i += 2
        else:
            if depth == 0:
                out.append(text[i])
            i += 1
    return "".join(out)


def forbidden_scan():
    hits = []
    for d, _, fs in os.walk(COQ):
        for f in fs:
            if not f.endswith(".v"):
                continue
            p = os.path.join(d, f)
            body = strip_comments(open(p).read())
            for pat in FORBIDDEN:
                for m in re.finditer(pat, body):
                    hits.append(f"{os.path.relpath(p, COQ)}: {m.group(0)}")
            # Variable/Hypothesis outside a section
            depth = 0
            for line in body.splitlines():
                s = line.strip()
                if re.match(r"Section\s+\w+", s): depth += 1
                elif re.match(r"End\s+\w+", s) and depth > 0: depth -= 1
                elif depth == 0 and re.match(r"(Variables?|Hypothes[ie]s|Context)\b", s):
                    hits.append(f"{os.path.relpath(p, COQ)}: section-less {s.split()[0]}")
    for f in ("_CoqProject",):
        t = open(os.path.join(COQ, f)).read()
        for pat in (r"-type-in-type", r"-impredicative-set", r"-vos", r"-vok"):
            if re.search(pat, t):
                hits.append(f"{f}: {pat}")
    return hits


def prop_files(prop):
    """Props/<prop>.v and its siblings Props/<prop><suffix>.v (e.g. C12.v, C12crash.v, C12race.v)."""
    d = os.path.join(COQ, "Props")
    return sorted(f for f in os.listdir(d) if re.fullmatch(re.escape(prop) + r"[a-z]*\.v", f))


def audit_props(prop):
    """Audits every Props file of the property; merges the ledgers."""
    merged = dict(ok=True, rc=0, theorems=[], assumptions={}, problems=[], log="", wall=0.0)
    files = prop_files(prop)
    if not files:
        merged.update(ok=False, problems=[f"no Props/{prop}*.v file"])
    for f in files:
        a = audit_one(f[:-2])
        merged["ok"] = merged["ok"] and a["ok"]
        merged["rc"] = merged["rc"] or a["rc"]
        merged["theorems"] += a["theorems"]
        merged["assumptions"].update(a["assumptions"])
        merged["problems"] += a["problems"]
        merged["log"] += a["log"][-800:]
        merged["wall"] += a["wall"]
    return merged


def audit_one(prop):
    """Compile Props/<prop>.v on its own and read theorem names and Print Assumptions output."""
    src = os.path.join(COQ, "Props", f"{prop}.v")
    text = open(src).read()
    body = strip_comments(text)
    theorems = re.findall(r"^\s*Theorem\s+(\w+)", body, re.M)
    # the property files may contain nothing but statements closed by `exact`
    problems = []
    for m in re.finditer(r"Proof\.(.*?)Qed\.", body, re.S):
        if not re.fullmatch(r"\s*exact\s+[^.]+\.\s*", m.group(1)):
            problems.append("Props file contains a proof other than `exact <lemma>.`: " + m.group(1).strip()[:80])
    if re.search(r"^\s*(Definition|Fixpoint|Lemma|Inductive|Record|Ltac|Instance)\b", body, re.M):
        for m in re.finditer(r"^\s*(Definition|Fixpoint|Lemma|Inductive|Record|Ltac|Instance)\s+(\w+)", body, re.M):
            if not (m.group(1) == "Definition" and m.group(2).endswith("_full")):
                problems.append(f"Props file declares {m.group(1)} {m.group(2)}")
    os.makedirs(WORK, exist_ok=True)
    os.makedirs(os.path.join(WORK, "audit"), exist_ok=True)
    out_vo = os.path.join(WORK, "audit", f"{prop}.vo")
    rc, out, err, dt = run(["coqc"] + coq_flags() + ["-o", out_vo, os.path.relpath(src, COQ)], cwd=COQ, timeout=900)
    assumptions = {}
    if rc == 0:
        # output: for each Print Assumptions either "Closed under the global context" or "Axioms:\n name : type ..."
        blocks = re.split(r"(?=Closed under the global context|Axioms:)", out)
        blocks = [b for b in blocks if b.startswith("Closed") or b.startswith("Axioms:")]
        pa = re.findall(r"Print Assumptions\s+(\w+)\s*\.", body)
        for name, b in zip(pa, blocks):
            if b.startswith("Closed"):
                assumptions[name] = []
            else:
                assumptions[name] = re.findall(r"^\s*([\w\.]+)\s*:", b[len("Axioms:"):], re.M)
        if len(pa) != len(blocks):
            problems.append(f"Print Assumptions count mismatch: {len(pa)} commands, {len(blocks)} answers")
    for t in theorems:
        if t not in assumptions and rc == 0:
            problems.append(f"theorem {t} has no Print Assumptions")
    for t, ax in assumptions.items():
        for a in ax:
            if a not in AXIOM_ALLOW and a.split(".")[-1] not in AXIOM_ALLOW:
                problems.append(f"theorem {t} depends on non-allowlisted axiom {a}")
    return dict(ok=(rc == 0 and not problems), rc=rc, theorems=theorems, assumptions=assumptions,
                problems=problems, log=(out + err)[-3000:], wall=dt)


def coqchk(prop):
    """Independent re-check of Props/<prop>.vo and everything it depends on (thorough tier)."""
    mods = [f"Anydb.Props.{f[:-2]}" for f in prop_files(prop)]
    rc, out, err, dt = run(["coqchk", "-silent", "-o", "-Q", ".", "Anydb"] + mods, cwd=COQ, timeout=3400)
    text = out + err
    axioms = []
    m = re.search(r"\* Axioms:(.*?)\n\s*\n\* Constants/Inductives relying on type-in-type", text, re.S)
    if m:
        axioms = [l.strip() for l in m.group(1).splitlines() if l.strip() and l.strip() != "<none>"]
    bad = []
    for sect in ("relying on type-in-type", "relying on unsafe (co)fixpoints", "whose positivity is assumed"):
        mm = re.search(re.escape(sect) + r":(.*?)(?:\n\s*\n|$)", text, re.S)
        if mm and "<none>" not in mm.group(1):
            bad.append(sect + ":" + mm.group(1).strip()[:200])
    ok = rc == 0 and not bad and all(a.split()[0] in AXIOM_ALLOW or a.split(".")[-1] in AXIOM_ALLOW for a in axioms)
    return dict(ok=ok, rc=rc, axioms=axioms, problems=bad, wall=dt, log=text[-1500:])


def build_driver():
    model = os.path.join(OCAML, "model.ml")
    drv = os.path.join(OCAML, "driver")
    srcs = [os.path.join(OCAML, f) for f in os.listdir(OCAML) if f.endswith(".ml") or f.endswith(".mli") or f == "build.sh"]
    if os.path.exists(drv) and all(os.path.getmtime(s) <= os.path.getmtime(drv) for s in srcs):
        return True, ""
    with build_lock():
        rc, out, err, dt = run(["sh", os.path.join(OCAML, "build.sh")], cwd=OCAML, timeout=900)
    return rc == 0, (out + err)[-3000:]


# --------------------------------------------------------------------------- engines
def run_shard(engine, harness_bin, seed, cases, extra, tag):
    os.makedirs(WORK, exist_ok=True)
    # the pid keeps concurrent ./check runs in one tree from writing the same trace file
    tr = os.path.join(WORK, f"{tag}.{os.getpid()}.trace")
    ex = os.path.join(WORK, f"{tag}.{os.getpid()}.exp")
    timed_out = False
    with open(tr, "w") as f:
        try:
            p = subprocess.run([harness_bin, engine, "--seed", str(seed), "--cases", str(cases)] + extra, stdout=f,
                               stderr=subprocess.PIPE, text=True, env=ENV, timeout=3400)
        except subprocess.TimeoutExpired:
            # the implementation side did not finish (e.g. a change that makes every hand-shake run into its
            # time-out): judge the cases it completed; the unfinished last case is dropped
            timed_out = True
    if timed_out:
        lines = open(tr, errors="replace").read().split("\n")
        ids = [l.split(" ")[1] for l in lines if l.startswith("I ") and len(l.split(" ")) > 1]
        last = ids[-1] if ids else None
        kept = [l for l in lines[:-1] if not (last and len(l.split(" ")) > 1 and l.split(" ")[1] == last)]
        open(tr, "w").write("\n".join(kept) + "\n")
        with open(tr) as fin, open(ex, "w") as fout:
            q = subprocess.run([os.path.join(OCAML, "driver"), engine], stdin=fin, stdout=fout, stderr=subprocess.PIPE,
                               text=True, timeout=3400)
        r = compare(tr, ex) if q.returncode == 0 else dict(n=0, mismatches=[], violations=[], inputs={}, obs={}, tags={}, trace=tr)
        if not r["violations"] and not r["mismatches"]:
            return dict(error=f"harness `{engine}` did not finish within 3400 s ({r['n']} cases completed without a disagreement)", trace=tr)
        return r
    if p.returncode != 0:
        died = died_in(tr)
        if died is not None and p.returncode < 0:
            # the process was killed by a signal (abort on a failed allocation, stack overflow, SIGBUS on a
            # mapping ...) while a case was running: that case is the failing input
            cid, inp = died
            return dict(n=1, mismatches=[], inputs={cid: inp}, obs={}, tags={}, trace=tr,
                        violations=[dict(id=cid, input=inp, what=f"process-killed-by-signal-{-p.returncode} while this case was running "
                                                                  f"(stderr: {p.stderr[-300:].strip()})")])
        return dict(error=f"harness exit {p.returncode}: {p.stderr[-2000:]}", trace=tr)
    with open(tr) as fin, open(ex, "w") as fout:
        q = subprocess.run([os.path.join(OCAML, "driver"), engine], stdin=fin, stdout=fout, stderr=subprocess.PIPE,
                           text=True, timeout=3400)
    if q.returncode != 0:
        return dict(error=f"driver exit {q.returncode}: {q.stderr[-2000:]}", trace=tr)
    return compare(tr, ex)


def died_in(trace):
    """The case that was running when the harness died: the last `R <id> <input>` line (printed by
    util::running BEFORE a case is executed) that has no `O <id>` line after it."""
    last = None
    try:
        for l in open(trace, errors="replace"):
            k, _, rest = l.rstrip("\n").partition(" ")
            cid, _, body = rest.partition(" ")
            if k == "R":
                last = (cid, body)
            elif k == "O" and last and last[0] == cid:
                last = None
    except OSError:
        return None
    return last


def compare(trace, exp):
    I, O, V, E, M = {}, {}, {}, {}, {}
    order = []
    for l in open(trace):
        l = l.rstrip("\n")
        if len(l) < 2 or l[1] != " ":
            continue
        k, _, rest = l.partition(" ")
        cid, _, body = rest.partition(" ")
        if k == "I": I[cid] = body; order.append(cid)
        elif k == "O": O.setdefault(cid, []).append(body)
        elif k == "V": V.setdefault(cid, []).append(body)
        elif k == "M": M.setdefault(cid, []).append(body)   # distribution tags
    for l in open(exp):
        l = l.rstrip("\n")
        k, _, rest = l.partition(" ")
        cid, _, body = rest.partition(" ")
        if k == "E": E.setdefault(cid, []).append(body)
        elif k == "S": V.setdefault(cid, []).append(body)    # spec-level failure found by the driver's oracle
    mism = []
    for cid in order:
        o, e = O.get(cid, []), E.get(cid, [])
        if o != e:
            step = next((i for i, (a, b) in enumerate(zip(o, e)) if a != b), min(len(o), len(e)))
            mism.append(dict(id=cid, input=I[cid], step=step, obs=(o[step] if step < len(o) else None),
                             exp=(e[step] if step < len(e) else None)))
    viol = [dict(id=cid, input=I.get(cid, ""), what=w) for cid, ws in V.items() for w in ws]
    return dict(n=len(order), mismatches=mism, violations=viol, inputs=I, obs=O, tags=M, trace=trace)


def run_corpus(prop, engine, harness_bin, tag):
    """Replays corpus/<prop>/*.txt (minimised histories that once failed or once distinguished
    model and code) before anything is generated."""
    cdir = os.path.join(ROOT, "corpus", prop)
    out = []
    if not os.path.isdir(cdir):
        return out
    for f in sorted(os.listdir(cdir)):
        path = os.path.join(cdir, f)
        head = open(path).read(300)
        m = re.search(r"#\s*engine:\s*(\w+)", head)
        if m and m.group(1) != engine:
            continue
        os.makedirs(WORK, exist_ok=True)
        tr = os.path.join(WORK, f"{tag}.corpus.{f}.{os.getpid()}.trace")
        ex = os.path.join(WORK, f"{tag}.corpus.{f}.{os.getpid()}.exp")
        with open(tr, "w") as fo:
            p = subprocess.run([harness_bin, engine, "--replay", path], stdout=fo, stderr=subprocess.PIPE, text=True, env=ENV, timeout=1800)
        if p.returncode != 0:
            out.append(dict(error=f"harness exit {p.returncode} on corpus {f}: {p.stderr[-1000:]}", trace=tr))
            continue
        drv = os.path.join(OCAML, "driver")
        if os.path.exists(drv):
            with open(tr) as fin, open(ex, "w") as fo:
                subprocess.run([drv, engine], stdin=fin, stdout=fo, stderr=subprocess.PIPE, text=True, timeout=1800)
        else:
            open(ex, "w").close()
        r = compare(tr, ex)
        if not os.path.exists(drv):
            r["mismatches"] = []
        r["corpus"] = f
        out.append(r)
    return out


def run_engine(engine, harness_bin, seed, cases, shards=1, extra=None, tag=None):
    extra = extra or []
    tag = tag or engine
    per = max(1, cases // shards)
    results = []
    with concurrent.futures.ThreadPoolExecutor(max_workers=min(shards, NPROC)) as ex:
        futs = [ex.submit(run_shard, engine, harness_bin, seed * 1000 + s, per, extra, f"{tag}.{s}") for s in range(shards)]
        for f in futs:
            results.append(f.result())
    return results


# --------------------------------------------------------------------------- findings / verdict
def load_known():
    known, fixed = [], []
    if os.path.exists(KNOWN):
        for l in open(KNOWN):
            l = l.strip()
            if l.startswith("known:"):
                m = re.match(r"known:\s+property=(\w+)\s+key=(\S+)\s*(.*)", l)
                if m: known.append(dict(prop=m.group(1), key=m.group(2), text=m.group(3)))
            elif l.startswith("fixed:"):
                fixed.append(l)
    return known, fixed


def write_replay(prop, n, lines):
    os.makedirs(REPLAYS, exist_ok=True)
    p = os.path.join(REPLAYS, f"{prop}-{n}.txt")
    with open(p, "w") as f:
        f.write("\n".join(lines) + "\n")
    return p


def write_evidence(prop, tier, seed, level, coverage, assumptions, wall, violations):
    os.makedirs(EVID, exist_ok=True)
    ev = dict(property_id=prop, tier=tier, seed=int(seed), level=level, coverage=coverage,
              assumptions=assumptions, wall_s=round(wall, 2), violations=int(violations))
    with open(os.path.join(EVID, f"{prop}.json"), "w") as f:
        json.dump(ev, f, indent=1, sort_keys=True)
        f.write("\n")
    return ev
