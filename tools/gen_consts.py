#!/usr/bin/env python3
"""Translator (A): regenerate coq/Gen/Consts.v from /repo's current working tree.

Every fact is extracted by a pattern from the Rust source; a pattern that no longer
matches makes the translator fail loudly (exit 2) — it never guesses.  The file is only
rewritten when its content changes so an unchanged tree costs no Coq rebuild.
"""
import os, re, sys

REPO = os.environ.get("ANYDB_REPO", "/repo")
ROOT = os.path.dirname(os.path.dirname(os.path.abspath(__file__)))
OUT = os.path.join(ROOT, "coq", "Gen", "Consts.v")


class GenError(Exception):
    pass


def src(rel):
    p = os.path.join(REPO, rel)
    try:
        return open(p).read()
    except OSError as e:
        raise GenError(f"cannot read {rel}: {e}")


def find(rel, pattern, what, flags=re.S):
    m = re.search(pattern, src(rel), flags)
    if not m:
        raise GenError(f"{rel}: pattern for {what} no longer matches: {pattern!r}")
    return m


ENV = {"GiB": 1024 ** 3, "ONE_KIB": 1024}


def const_expr(text, what):
    """Evaluate a constant expression made of integer literals, known names, * + - << and parens."""
    t = text.strip()
    t = re.sub(r"(\d)_(\d)", r"\1\2", t)
    t = re.sub(r"\b(usize|u64|u32)\b", "", t)
    if not re.fullmatch(r"[\w\s\*\+\-\(\)<]+", t):
        raise GenError(f"constant expression for {what} outside the grammar: {text!r}")
    try:
        return int(eval(t, {"__builtins__": {}}, dict(ENV)))
    except Exception as e:
        raise GenError(f"cannot evaluate {what}: {text!r}: {e}")


def rust_const(rel, name, what=None):
    m = find(rel, r"const\s+" + name + r"\s*:\s*\w+\s*=\s*([^;]+);", what or name)
    return const_expr(m.group(1), name)


def gen():
    out = []
    defs = {}

    def D(name, val, comment=""):
        defs[name] = val
        out.append(f"Definition {name} : N := {val}%N.{('  (* ' + comment + ' *)') if comment else ''}")

    R = "crates/rawdb/src/"
    V = "crates/vecdb/src/"

    # ---- rawdb -----------------------------------------------------------
    page = rust_const(R + "lib.rs", "PAGE_SIZE")
    ENV["PAGE_SIZE"] = page
    D("PAGE_SIZE", page, "rawdb/lib.rs")
    pm1 = find(R + "lib.rs", r"const\s+PAGE_SIZE_MINUS_1\s*:\s*usize\s*=\s*PAGE_SIZE\s*-\s*1\s*;", "PAGE_SIZE_MINUS_1")
    D("PAGE_SIZE_MINUS_1", page - 1)
    ENV["GiB"] = rust_const(R + "lib.rs", "GiB")
    m = find(R + "region_metadata.rs", r"const\s+SIZE_OF_REGION_METADATA\s*:\s*usize\s*=\s*([^;]+);", "SIZE_OF_REGION_METADATA")
    D("SIZE_OF_REGION_METADATA", const_expr(m.group(1), "SIZE_OF_REGION_METADATA"))
    D("MAX_REGION_ID_LEN", rust_const(R + "region_metadata.rs", "MAX_REGION_ID_LEN"))
    D("MAX_RESERVED_SIZE", rust_const(R + "region_metadata.rs", "MAX_RESERVED_SIZE"))

    # field offsets of RegionMetadata::from_bytes
    fb = find(R + "region_metadata.rs", r"pub fn from_bytes\(bytes: &\[u8\]\) -> Result<Self> \{(.*?)\n    \}\n", "RegionMetadata::from_bytes").group(1)
    for fld in ("start", "len", "reserved", "id_len"):
        m = re.search(r"let\s+" + fld + r"\s*=\s*u64::from_le_bytes\(bytes\[(\d+)\.\.(\d+)\]", fb)
        if not m:
            raise GenError(f"RegionMetadata::from_bytes: field {fld} slice not found")
        D(f"META_OFF_{fld.upper()}", int(m.group(1)))
        D(f"META_END_{fld.upper()}", int(m.group(2)))
    m = re.search(r"String::from_utf8\(bytes\[(\d+)\.\.(\d+) \+ id_len\]", fb)
    if not m or m.group(1) != m.group(2):
        raise GenError("RegionMetadata::from_bytes: id slice not found")
    D("META_OFF_ID", int(m.group(1)))
    # the order of validation checks in from_bytes, as a list of tags
    order = []
    for tag, pat in [
        ("size", r"bytes\.len\(\) != SIZE_OF_REGION_METADATA"),
        ("empty", r"start == 0 && len == 0 && reserved == 0 && id_len == 0"),
        ("idlen", r"id_len > MAX_REGION_ID_LEN"),
        ("idfit", r"32 \+ id_len > SIZE_OF_REGION_METADATA"),
        ("utf8", r"String::from_utf8"),
        ("start_aligned", r"!start\.is_multiple_of\(PAGE_SIZE\)"),
        ("reserved_min", r"reserved < PAGE_SIZE"),
        ("reserved_aligned", r"!reserved\.is_multiple_of\(PAGE_SIZE\)"),
        ("len_le_reserved", r"len > reserved"),
    ]:
        m = re.search(pat, fb)
        if not m:
            raise GenError(f"RegionMetadata::from_bytes: check '{tag}' not found")
        order.append((m.start(), tag))
    order.sort()
    tags = [t for _, t in order]
    expect = ["size", "empty", "idlen", "idfit", "utf8", "start_aligned", "reserved_min", "reserved_aligned", "len_le_reserved"]
    out.append("(* validation order of RegionMetadata::from_bytes: " + " ".join(tags) + " *)")
    out.append("Definition META_CHECK_ORDER_AS_MODELLED : bool := %s." % ("true" if tags == expect else "false"))

    # file growth policy in set_min_len
    m = find(R + "lib.rs", r"ceil_number_to_page_size_multiple\(len\.max\(current_len \* (\d+)\)\.max\(([^)]+)\)\)", "set_min_len target_len")
    D("GROW_FACTOR", int(m.group(1)))
    D("GROW_FLOOR", const_expr(m.group(2), "growth floor"))
    find(R + "lib.rs", r"\(num \+ PAGE_SIZE_MINUS_1\) & !PAGE_SIZE_MINUS_1", "ceil_number_to_page_size_multiple")
    m = find(R + "region.rs", r"new_reserved\s*\n?\s*\.checked_mul\((\d+)\)", "reserve doubling")
    D("RESERVE_FACTOR", int(m.group(1)))
    m = find(R + "regions.rs", r"Region::new\(db, id\.clone\(\), index, start, (\d+), (\w+)\)", "initial region len/reserve")
    D("NEW_REGION_LEN", int(m.group(1)))
    D("NEW_REGION_RESERVED", const_expr(m.group(2), "initial reserve"))
    m = find(R + "regions.rs", r"if ref_count > (\d+) \{", "remove ref count bound")
    D("REMOVE_MAX_REFS", int(m.group(1)))

    # ---- vecdb -----------------------------------------------------------
    m = find(V + "base/header/mod.rs", r"const HEADER_VERSION: Version = Version::(\w+);", "HEADER_VERSION")
    vers = {"ZERO": 0, "ONE": 1, "TWO": 2}
    if m.group(1) not in vers:
        raise GenError("HEADER_VERSION not one of ZERO/ONE/TWO")
    D("HEADER_VERSION", vers[m.group(1)])

    def version_const(rel, what):
        m = find(rel, r"const VERSION: Version = Version::(?:new\((\d+)\)|(\w+));", what)
        return int(m.group(1)) if m.group(1) else vers[m.group(2)]

    D("RAW_LAYER_VERSION", version_const(V + "variants/raw/inner/read_write/mod.rs", "raw VERSION"))
    D("COMP_LAYER_VERSION", version_const(V + "variants/compressed/inner/read_write/mod.rs", "compressed VERSION"))

    hb = find(V + "base/header/inner.rs", r"fn from_bytes\(bytes: &\[u8\]\) -> Result<Self> \{(.*?)\n    \}\n", "HeaderInner::from_bytes").group(1)
    for fld, ty in (("header_version", "Version"), ("vec_version", "Version"), ("computed_version", "Version"), ("stamp", "Stamp"), ("format", "Format")):
        m = re.search(r"let\s+" + fld + r"\s*=\s*" + ty + r"::from_bytes\(&bytes\[(\d+)\.\.(\d+)\]\)", hb)
        if not m:
            raise GenError(f"HeaderInner::from_bytes: field {fld} not found")
        D(f"HDR_OFF_{fld.upper()}", int(m.group(1)))
        D(f"HDR_END_{fld.upper()}", int(m.group(2)))

    fmt = src(V + "base/format/bytes.rs")
    codes = re.findall(r"(\d+) => Ok\(Self::(\w+)\)", fmt)
    if len(codes) != 5:
        raise GenError("Format::from_bytes: expected five codes")
    enum = find(V + "base/format/mod.rs", r"pub enum Format \{(.*?)\n\}", "enum Format").group(1)
    # discriminants as declared (implicit ones count up from the previous)
    disc = {}
    cur = -1
    for line in enum.splitlines():
        line = line.strip()
        if not line or line.startswith("//"):
            continue
        m2 = re.match(r"(\w+)(?:\s*=\s*(\d+))?,", line)
        if m2:
            cur = int(m2.group(2)) if m2.group(2) else cur + 1
            disc[m2.group(1)] = cur
    for code, name in codes:
        D(f"FORMAT_{name.upper()}", int(code))
        if disc.get(name) != int(code):
            raise GenError(f"Format::{name}: from_bytes code {code} differs from discriminant {disc.get(name)}")

    pg = src(V + "variants/compressed/inner/page/bytes.rs")
    for fld, pat in (("START", r"let start = u64::from_bytes\(&bytes\[(\d+)\.\.(\d+)\]\)"),
                     ("BYTES", r"let bytes_val = u32::from_bytes\(&bytes\[(\d+)\.\.(\d+)\]\)"),
                     ("VALUES", r"let values = u32::from_bytes\(&bytes\[(\d+)\.\.(\d+)\]\)")):
        m = re.search(pat, pg)
        if not m:
            raise GenError(f"Page::from_bytes: field {fld} not found")
        D(f"PAGE_OFF_{fld}", int(m.group(1)))
        D(f"PAGE_END_{fld}", int(m.group(2)))
    m = find(V + "variants/compressed/inner/page/mod.rs", r"const RAW_FLAG: u32 = 1 << (\d+);", "RAW_FLAG")
    D("RAW_FLAG", 1 << int(m.group(1)))
    D("MAX_UNCOMPRESSED_PAGE_SIZE", rust_const(V + "variants/compressed/inner/read_write/mod.rs", "MAX_UNCOMPRESSED_PAGE_SIZE"))
    D("READ_CHUNK_SIZE", rust_const(V + "traits/readable.rs", "READ_CHUNK_SIZE"))
    D("MAX_CACHE_SIZE", rust_const(V + "traits/writable.rs", "MAX_CACHE_SIZE"))
    D("BUFFER_SIZE", rust_const(V + "lib.rs", "BUFFER_SIZE"))
    D("MMAP_CROSSOVER_BYTES", rust_const(V + "lib.rs", "MMAP_CROSSOVER_BYTES"))

    # import entry points: how many times each adds the layer VERSION
    def adds(rel, what):
        t = src(rel)
        fi = re.search(r"pub fn forced_import_with\(mut options: ImportOptions[^)]*\) -> Result<Self> \{(.*?)\n    \}\n", t, re.S)
        im = re.search(r"pub fn import_with\((?:mut )?options: ImportOptions[^)]*\) -> Result<Self> \{(.*?)\n    \}\n", t, re.S)
        if not fi or not im:
            raise GenError(f"{what}: import_with / forced_import_with not found")
        a_forced_own = len(re.findall(r"options\.version = options\.version \+ VERSION", fi.group(1)))
        calls_import = len(re.findall(r"Self::import_with\(", fi.group(1)))
        a_import = len(re.findall(r"\+ VERSION", im.group(1)))
        # every `+ VERSION` in forced_import_with must be of the one shape the model understands
        if len(re.findall(r"\+\s*VERSION", fi.group(1))) != a_forced_own:
            raise GenError(f"{what}: forced_import_with adds VERSION in a form the translator does not understand")
        if len(re.findall(r"\+\s*VERSION", im.group(1))) != len(re.findall(r"options\.version = options\.version \+ VERSION", im.group(1))):
            raise GenError(f"{what}: import_with adds VERSION in a form the translator does not understand")
        errs = re.findall(r"Err\(Error::(\w+)", fi.group(1))
        return a_import, a_forced_own, calls_import, sorted(set(errs))
    for tag, rel in (("RAW", V + "variants/raw/inner/read_write/mod.rs"), ("COMP", V + "variants/compressed/inner/read_write/mod.rs")):
        a_i, a_f, calls, errs = adds(rel, tag)
        out.append(f"(* {tag} forced_import_with resets on: {' '.join(errs)} *)")
        for e in ("WrongEndian", "WrongLength", "DifferentFormat", "DifferentVersion", "DifferentCompressionMode", "InvalidFormat", "TryLock", "IO", "RawDB", "CorruptedRegion"):
            out.append(f"Definition {tag}_FORCED_RESETS_ON_{e} : bool := {'true' if e in errs else 'false'}.")
        D(f"{tag}_IMPORT_ADDS", a_i, "times import_with adds VERSION")
        D(f"{tag}_FORCED_OWN_ADDS", a_f, "times forced_import_with adds VERSION itself")
        out.append(f"Definition {tag}_FORCED_CALLS_IMPORT : bool := {'true' if calls > 0 else 'false'}.")

    # atomic orderings of SharedLen
    sl = src(V + "base/shared_len/mod.rs")
    m1 = re.search(r"self\.0\.load\(Ordering::(\w+)\)", sl)
    m2 = re.search(r"self\.0\.store\(val, Ordering::(\w+)\)", sl)
    if not m1 or not m2:
        raise GenError("SharedLen orderings not found")
    out.append(f"Definition SHARED_LEN_LOAD_ACQUIRE : bool := {'true' if m1.group(1) in ('Acquire', 'SeqCst') else 'false'}.")
    out.append(f"Definition SHARED_LEN_STORE_RELEASE : bool := {'true' if m2.group(1) in ('Release', 'SeqCst') else 'false'}.")

    # documented lock order
    m = find(R + "lib.rs", r"/// Lock ordering: ([^\n]+)\.\n", "lock-order doc comment")
    classes = [c.strip() for c in re.split(r"→|->", m.group(1))]
    out.append("(* documented lock order: " + " < ".join(classes) + " *)")
    out.append("Definition DOC_LOCK_ORDER : list N := [" + "; ".join(str(i) for i in range(len(classes))) + "]%N.")
    out.append("Definition DOC_LOCK_NAMES_OK : bool := %s." % ("true" if classes == ["layout", "regions", "mmap", "file", "meta", "dirty_bounds"] else "false"))

    header = [
        "(* GENERATED by tools/gen_consts.py from /repo — do not edit, do not commit. *)",
        "From Coq Require Import NArith List.",
        "Import ListNotations.",
        "",
    ]
    return "\n".join(header + out) + "\n"


def gen_sizes(harness_bin):
    """Values only the compiler knows, printed by `harness consts` built from the current tree."""
    import subprocess
    try:
        txt = subprocess.run([harness_bin, "consts"], capture_output=True, text=True, timeout=60, check=True).stdout
    except Exception as e:
        raise GenError(f"harness consts failed: {e}")
    vals = dict(l.split("=") for l in txt.split())
    for k in ("HEADER_OFFSET", "SIZE_OF_PAGE", "SIZE_OF_USIZE"):
        if k not in vals:
            raise GenError(f"harness consts: {k} missing")
    lines = ["(* GENERATED from `harness consts` (compiled against /repo) — do not edit, do not commit. *)",
             "From Coq Require Import NArith.", ""]
    for k in sorted(vals):
        lines.append(f"Definition {k} : N := {int(vals[k])}%N.")
    return "\n".join(lines) + "\n"


def write_if_changed(path, text):
    os.makedirs(os.path.dirname(path), exist_ok=True)
    old = open(path).read() if os.path.exists(path) else None
    if old != text:
        open(path, "w").write(text)
        print(f"gen_consts: {os.path.basename(path)} updated")


def main():
    try:
        write_if_changed(OUT, gen())
        hb = os.environ.get("ANYDB_HARNESS_BIN")
        if hb:
            write_if_changed(os.path.join(os.path.dirname(OUT), "Sizes.v"), gen_sizes(hb))
    except GenError as e:
        print(f"gen_consts: {e}", file=sys.stderr)
        return 2
    return 0


if __name__ == "__main__":
    sys.exit(main())
