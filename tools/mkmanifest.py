#!/usr/bin/env python3
"""Writes MANIFEST.json from tools/props.py + tools/manifest_text.py."""
import json, os, subprocess, sys
sys.path.insert(0, os.path.dirname(os.path.abspath(__file__)))
import props as P
import manifest_text as T
ROOT = os.path.dirname(os.path.dirname(os.path.abspath(__file__)))

def main():
    try:
        commits = subprocess.run(["git", "-C", "/repo", "log", "--format=%H %s"], capture_output=True, text=True).stdout.splitlines()
    except Exception:
        commits = []
    hook_commits = [c.split()[0] for c in commits if " verif-hooks:" in c or c.split(" ", 1)[1].startswith("verif-hooks")]
    checks = []
    pend_file = os.path.join(ROOT, "tools", "pending_props.txt")
    pending = set(open(pend_file).read().split()) if os.path.exists(pend_file) else set()
    for pid in sorted(P.PROPS):
        if pid in pending:
            continue
        t = P.TEXT[pid]
        checks.append(dict(
            property_id=pid,
            quick_cmd=f"./check {pid} --tier quick",
            thorough_cmd=f"./check {pid} --tier thorough",
            evidence_file=f"/verif/evidence/{pid}.json",
            replay_cmd_template=f"./check {pid} --replay {{path}}",
            engine=",".join(e["name"] for e in P.PROPS[pid]["engines"]),
            level_claimed=dict(category="proof", text=t["text"], design_ref=t["design_ref"]),
            level_note=t["note"],
            technique=t["technique"],
        ))
    na = [dict(property_id=k, reason=("machinery is built and merged but its check is still being validated on the current tree; no claim is made until it is registered" if k in P.PROPS else v))
          for k, v in sorted(T.NOT_APPLICABLE.items()) if k not in P.PROPS or k in pending]
    m = dict(
        version=1,
        setup_cmd="./setup.sh",
        hooks=dict(guard="anydb_verif", enable="RUSTFLAGS='--cfg anydb_verif' (set in /verif/harness/.cargo/config.toml; the harness depends on /repo/crates/{rawdb,vecdb} by path)",
                   baseline_off_cmd="cd /repo && cargo nextest run --workspace --no-fail-fast --test-threads 8 --offline || (cd /repo && cargo test --workspace --no-fail-fast --offline)",
                   source_commits=hook_commits, add_only=True),
        engines=P.ENGINES,
        checks=checks,
        notes=T.NOTES,
        not_applicable=na,
    )
    with open(os.path.join(ROOT, "MANIFEST.json"), "w") as f:
        json.dump(m, f, indent=1)
        f.write("\n")

if __name__ == "__main__":
    main()
