#!/usr/bin/env python3
"""Translator (A) for the change-record cursor (C17/C16): regenerate coq/Gen/CursorOrder.v from
crates/vecdb/src/base/change/cursor.rs.

What is translated is the ORDER OF STEPS inside `ChangeCursor::read_values` — the one decoder of the
change-record format that sizes a buffer from a count read from disk.  Each statement of its body
must be one of the shapes below; the statement list becomes a Coq list of `rv_step` constructors
that Vec/RvCursorOrder.v interprets (result + largest allocation request).  Anything else makes the
translator fail loudly (exit 2): it never guesses.

    let total = size_of_t.checked_mul(count).ok_or(Error::Overflow)?;      -> SMul
    self.check_remaining(total)?;                                          -> SCheck
    let [mut] vals = Vec::with_capacity(count);                            -> SAllocCount
    let vals = self.bytes[self.pos..self.pos + total].chunks(size_of_t)
                   .map(&mut read).collect::<Result<Vec<_>>>()?;           -> SCollect
    self.pos += total;                                                     -> SAdvance
    Ok(vals)                                                               -> SRet
Also checked by shape: check_remaining = checked_add -> Overflow, `end > self.bytes.len()` -> WrongLength;
read_u64 / read_stamp / skip call check_remaining before they slice or advance."""
import os, re, sys

REPO = os.environ.get("ANYDB_REPO", "/repo")
ROOT = os.path.dirname(os.path.dirname(os.path.abspath(__file__)))
OUT = os.path.join(ROOT, "coq", "Gen", "CursorOrder.v")
SRC = "crates/vecdb/src/base/change/cursor.rs"


class GenError(Exception):
    pass


def body_of(text, sig):
    i = text.find(sig)
    if i < 0:
        raise GenError(f"{SRC}: `{sig}` not found")
    j = text.index("{", text.index(")", i) if "->" not in sig else text.index("->", i))
    depth, k = 0, j
    while k < len(text):
        if text[k] == "{":
            depth += 1
        elif text[k] == "}":
            depth -= 1
            if depth == 0:
                return text[j + 1:k]
        k += 1
    raise GenError(f"{SRC}: unbalanced braces after `{sig}`")


def statements(body):
    """split at top-level `;` (and keep a trailing expression)"""
    out, depth, cur = [], 0, ""
    for ch in body:
        if ch in "([{":
            depth += 1
        elif ch in ")]}":
            depth -= 1
        if ch == ";" and depth == 0:
            out.append(cur.strip())
            cur = ""
        else:
            cur += ch
    if cur.strip():
        out.append(cur.strip())
    return [re.sub(r"\s+", " ", s) for s in out if s]


SHAPES = [
    (r"let total = size_of_t\.checked_mul\(count\)\.ok_or\(Error::Overflow\)\?", "SMul"),
    (r"self\.check_remaining\(total\)\?", "SCheck"),
    (r"let (mut )?vals(: Vec<T>)? = Vec::with_capacity\(count\)", "SAllocCount"),
    (r"let vals = self\.bytes\[self\.pos\.\.self\.pos \+ total\] ?\.chunks\(size_of_t\) ?\.map\(&mut read\) ?\.collect::<Result<Vec<_>>>\(\)\?", "SCollect"),
    (r"self\.pos \+= total", "SAdvance"),
    (r"Ok\(vals\)", "SRet"),
]


def gen():
    try:
        text = open(os.path.join(REPO, SRC)).read()
    except OSError as e:
        raise GenError(str(e))
    text = re.sub(r"//[^\n]*", "", text)
    m = re.search(r"pub fn read_values<T, F: FnMut\(&\[u8\]\) -> Result<T>>\(\s*&mut self,\s*count: usize,\s*size_of_t: usize,\s*mut read: F,\s*\) -> Result<Vec<T>> \{", text)
    if not m:
        raise GenError(f"{SRC}: signature of read_values no longer matches")
    depth, k = 0, m.end() - 1
    start = k
    while k < len(text):
        if text[k] == "{":
            depth += 1
        elif text[k] == "}":
            depth -= 1
            if depth == 0:
                break
        k += 1
    steps = []
    for st in statements(text[start + 1:k]):
        for pat, name in SHAPES:
            if re.fullmatch(pat, st):
                steps.append(name)
                break
        else:
            raise GenError(f"{SRC}: read_values: statement outside the translated shapes: `{st[:120]}`")
    # check_remaining, by shape
    cr = re.search(r"fn check_remaining\(&self, len: usize\) -> Result<\(\)> \{(.*?)\n    \}", text, re.S)
    if not cr or not re.search(r"let end = self\.pos\.checked_add\(len\)\.ok_or\(Error::Overflow\)\?;\s*if end > self\.bytes\.len\(\) \{\s*return Err\(Error::WrongLength", cr.group(1)):
        raise GenError(f"{SRC}: check_remaining no longer has the shape checked_add -> Overflow; end > len -> WrongLength")
    for fn, size in (("read_u64", "SIZE_OF_U64"), ("read_stamp", "SIZE_OF_U64")):
        b = re.search(r"pub fn %s\(&mut self\) -> Result<\w+> \{(.*?)\n    \}" % fn, text, re.S)
        if not b or not re.match(r"\s*self\.check_remaining\(%s\)\?;" % size, b.group(1)):
            raise GenError(f"{SRC}: {fn} no longer starts with check_remaining({size})")
    b = re.search(r"pub fn skip\(&mut self, n: usize\) -> Result<\(\)> \{(.*?)\n    \}", text, re.S)
    if not b or not re.match(r"\s*self\.check_remaining\(n\)\?;\s*self\.pos \+= n;", b.group(1)):
        raise GenError(f"{SRC}: skip no longer starts with check_remaining(n)")
    return ("(* GENERATED by tools/gen_cursor.py from /repo — do not edit, do not commit. *)\n"
            "Inductive rv_step := SMul | SCheck | SAllocCount | SCollect | SAdvance | SRet.\n"
            "Require Import List. Import ListNotations.\n"
            f"Definition read_values_steps : list rv_step := [{'; '.join(steps)}].\n")


def main():
    try:
        text = gen()
    except GenError as e:
        print(f"gen_cursor: {e}", file=sys.stderr)
        return 2
    old = open(OUT).read() if os.path.exists(OUT) else None
    if old != text:
        os.makedirs(os.path.dirname(OUT), exist_ok=True)
        open(OUT, "w").write(text)
        print("gen_cursor: CursorOrder.v updated")
    return 0


if __name__ == "__main__":
    sys.exit(main())
