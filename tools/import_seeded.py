#!/usr/bin/env python3
"""Copies the independently written breaking changes from /root/mut/out-<Cxx>/ into
/verif/seeded/<Cxx>-m<k>/ (patch.diff, demo.rs, NOTES.md, meta.json) once the coordinator's own
verification log (coordinator_m<k>.log) confirms: demo passes without, fails with, suite passes with."""
import json, os, re, shutil, sys
ROOT = os.path.dirname(os.path.dirname(os.path.abspath(__file__)))
for arg in sys.argv[1:]:
    # round 2 deliveries are named <Cxx>b and become <Cxx>-m3 / <Cxx>-m4
    prop, second = (arg[:-1], True) if arg.endswith("b") else (arg, False)
    out = f"/root/mut/out-{arg}"
    notes = open(os.path.join(out, "NOTES.md")).read() if os.path.exists(os.path.join(out, "NOTES.md")) else ""
    for m in ("m1", "m2"):
        log = os.path.join(out, f"coordinator_{m}.log")
        if not os.path.exists(log):
            print(prop, m, "no coordinator log"); continue
        t = open(log).read()
        parts = re.split(r"== (demo WITHOUT mutation|demo WITH mutation|suite WITH mutation)\n", t)
        sec = {parts[i]: parts[i + 1] for i in range(1, len(parts) - 1, 2)}
        ok_without = "exit=0" in sec.get("demo WITHOUT mutation", "")
        fails_with = "exit=101" in sec.get("demo WITH mutation", "") or "FAILED" in sec.get("demo WITH mutation", "")
        suite = sec.get("suite WITH mutation", "")
        suite_ok = "test result: FAILED" not in suite and suite.count("test result: ok") >= 10
        d = os.path.join(ROOT, "seeded", f"{prop}-{ {'m1': 'm3', 'm2': 'm4'}[m] if second else m}")
        if not (ok_without and fails_with and suite_ok):
            print(prop, m, "NOT confirmed", ok_without, fails_with, suite_ok); continue
        os.makedirs(d, exist_ok=True)
        shutil.copy(os.path.join(out, f"{m}.diff"), os.path.join(d, "patch.diff"))
        shutil.copy(os.path.join(out, f"{m}_demo.rs"), os.path.join(d, "demo.rs"))
        sect = re.search(r"(?is)(#+\s*" + m + r"\b.*?)(?=\n#+\s*m[12]\b|\Z)", notes)
        needs = sect.group(1).strip()[:3000] if sect else notes[:3000]
        meta = dict(
            breaks_property=prop, patch="patch.diff", demonstration="demo.rs",
            base_commit=("2a6ead6" if second else "faf2fd7") + " (the clone the change was written against)",
            written_by="independent sub-agent given only the property text and a scratch clone of /repo (nothing from /verif)",
            needs_to_manifest=needs,
            coordinator_ran=[
                "cargo test -p <crate> --test <demo> on the unmodified clone: pass",
                "git apply patch.diff; same demo: FAIL",
                "cargo test --workspace --offline --no-fail-fast with the patch: every `test result` line ok",
            ],
            checks_run_against_it="see DESIGN.md section 12 (which checks catch which changes)",
        )
        json.dump(meta, open(os.path.join(d, "meta.json"), "w"), indent=1)
        print(prop, m, "imported")
