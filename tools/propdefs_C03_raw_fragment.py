"""Raw-vector fragment for tools/propdefs/C03.py (NOT loaded automatically; the coordinator merges it)."""


def classify_raw(inp, obs, tags):
    toks = inp.split()
    ops = [t for t in toks if "=" not in t]
    out = [t for t in tags if t.startswith(("profile:", "write:", "resync", "cfg:"))]
    kinds = {o.split(":")[0] for o in ops}
    regimes = {t for t in tags if t.startswith("write:")}
    # non-trivial = at least two different write() regimes were taken
    return out, len(regimes) >= 2 and bool(kinds & {"u", "d", "k", "h", "t"})


PROP = dict(
    engines=[dict(
        name="rawvec", classify=classify_raw,
        quick=dict(cases=4000, shards=4, profiles=["debug"], extra=["--no-faults"]),
        thorough=dict(cases=48000, shards=16, profiles=["debug"], extra=["--no-faults"]),
    )],
    extra_targets=["Props/C03raw.vo"],
    rule="(raw half) see tools/propdefs/C04.py; write() regimes are tagged write:<T truncated><E expanded><N new data>"
         "<U updates><H holes><h had holes>",
)
ENGINES = [
    dict(name="rawvec", path="harness/src/eng_rawvec.rs + ocaml/eng_rawvec.ml", serves_properties=["C03", "C04", "C16"],
         kind_free_text="differential: real raw vectors vs extracted Coq model after every step"),
]
TEXT = dict(
    text=("Raw half (BytesVec, ZeroCopyVec, EagerVec wrappers): C03_refines_raw — for ALL histories of push, truncate, write, "
          "flush, reset, re-import, update, delete, take, fill and stamped writes (with and without change records), all element "
          "types and retention settings, after EVERY step the results are equal, the view of the concrete state equals the "
          "reference contents (same length, same deleted slots), the stamps are equal; C03_reimport; C03_no_garbage (no read "
          "behind the valid region length); C03_write_ok (write() never fails on a reachable state).  Unbounded induction "
          "(Vec/RvRefine.v); rollback steps belong to C04."),
)
